#!/bin/bash
# tools/run_all.sh [quick|thorough]: every registered check in turn on /repo's working tree; one summary line each
cd "$(dirname "$0")/.."
tier=${1:-quick}
for p in $(python3 -c "import json;print(' '.join(c['property_id'] for c in json.load(open('MANIFEST.json'))['checks']))"); do
  s=$(date +%s)
  out=$(./check $p $tier 2>&1); rc=$?
  echo "$p rc=$rc $(( $(date +%s) - s ))s :: $(echo "$out" | tail -1)"
  echo "$out" | grep -E "^VIOLATION|^UNDECIDED|^CHECKER" | head -5
done
