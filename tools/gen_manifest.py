#!/usr/bin/env python3
"""regenerates MANIFEST.json from tools/manifest_src.py (single source of truth for level texts)"""
import json, os, sys
sys.path.insert(0, os.path.dirname(os.path.abspath(__file__)))
from manifest_src import CHECKS, NOT_APPLICABLE, NOTES
root = os.path.dirname(os.path.dirname(os.path.abspath(__file__)))
checks = []
for pid, c in sorted(CHECKS.items()):
    checks.append({
        'property_id': pid,
        'quick_cmd': f'./check {pid} quick',
        'thorough_cmd': f'./check {pid} thorough',
        'evidence_file': f'evidence/{pid}.json',
        'replay_cmd_template': f'./check {pid} --replay {{path}}',
        'engine': 'vf',
        'level_claimed': {'category': c['category'], 'text': c['text'], 'design_ref': c.get('design_ref', 'DESIGN.md §5')},
        'level_note': c['note'],
        'technique': c['technique'],
    })
m = {
    'version': 1,
    'setup_cmd': './setup.sh',
    'hooks': {'guard': 'PYTONIQ_CORE_VERIF', 'enable': 'no source hooks: all instrumentation is sidecar (in-memory loader rewrites, harness wrappers)',
              'baseline_off_cmd': 'cd /repo && /venv/bin/python -m pytest -ra -q -p no:cacheprovider --timeout=900 --continue-on-collection-errors',
              'source_commits': [], 'add_only': True},
    'engines': [{'name': 'vf', 'path': 'vf/', 'serves_properties': sorted(CHECKS),
                 'kind_free_text': 'contract-based deductive verifier: the real repository code is executed by CPython on symbolic proxies '
                                   '(all feasible paths, callers against callee contracts where stubbed), obligations discharged by z3; '
                                   'AST-generated bit-vector VCs for the CRC loops; native replay of counter-models; bounded native stand-ins labelled as such'}],
    'checks': checks,
    'notes': NOTES,
    'not_applicable': [{'property_id': k, 'reason': v} for k, v in sorted(NOT_APPLICABLE.items())],
}
json.dump(m, open(os.path.join(root, 'MANIFEST.json'), 'w'), indent=1)
try:
    import jsonschema
    jsonschema.validate(m, json.load(open('/root/.vp/MANIFEST.schema.json')))
    print('MANIFEST.json valid;', len(checks), 'checks,', len(m['not_applicable']), 'not applicable')
except ImportError:
    print('written (jsonschema not available for validation)')
