#!/usr/bin/env python3
"""debug: tools/unit.py <obligation-id> [case_idx|all] [--native N]   (symbolic world by default)"""
import sys, os, json, time
ROOT = os.path.dirname(os.path.dirname(os.path.abspath(__file__)))
sys.path.insert(0, ROOT)
sys.setrecursionlimit(4000)
from vf import engine, loader
oid = sys.argv[1]
prop = oid.split('.')[0]
native = '--native' in sys.argv
engine.load_harness(prop)          # before the loader: a harness may declare ghost counters (TICK_LOOPS)
if native:
    loader.install_native()
else:
    loader.install_symbolic()
ob = engine.REGISTRY[oid]
sel = sys.argv[2] if len(sys.argv) > 2 and not sys.argv[2].startswith('--') else 'all'
idxs = range(len(ob.cases)) if sel == 'all' else [int(sel)]
t0 = time.time()
tot = {}
for i in idxs:
    if native:
        n = int(sys.argv[sys.argv.index('--native') + 1])
        r = engine.run_native_unit(oid, i, 'quick', 0) if n == 0 else None
        if n:
            ob.samples = n
            r = engine.run_native_unit(oid, i, 'quick', 0)
    else:
        r = engine.run_symbolic_unit(oid, i, 'quick')
    tot[r['status']] = tot.get(r['status'], 0) + 1
    if r['status'] not in ('DISCHARGED', 'PASSED') or len(idxs) == 1:
        r2 = dict(r); r2.pop('sample_vc', None)
        print(json.dumps(r2, indent=1, default=str)[:6000])
print(tot, f'{time.time()-t0:.1f}s')
