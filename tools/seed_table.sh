#!/bin/bash
# tools/seed_table.sh [seed ...]: every kept seeded change (or the given ones) against the check of the property it breaks;
# one line each, and seeded/<id>/meta.json gets "caught_by" (first failing obligations), "check_rc" and "replayed_natively".
cd "$(dirname "$0")/.."
seeds="$@"; [ -z "$seeds" ] && seeds=$(ls -d seeded/*/ | xargs -n1 basename)
for n in $seeds; do
  sd=seeded/$n
  out=$(tools/seed.sh $sd 2>&1)
  rc=$(echo "$out" | grep -o "rc=[0-9]*" | head -1 | cut -d= -f2)
  ob=$(echo "$out" | grep -o "obligation=[^ |]*" | head -2 | sed 's/obligation=//' | tr '\n' ' ')
  nf=$(echo "$out" | grep -c "no-failing-input-found")
  echo "$n rc=$rc $ob"
  python3 - "$sd" "$rc" "$nf" "$ob" <<'PY'
import json,sys
p=sys.argv[1]+'/meta.json'; m=json.load(open(p))
m['check_rc']=int(sys.argv[2] or -1); m['caught_by']=sys.argv[4].split(); m['replayed_natively']=sys.argv[3]=='0' and sys.argv[2]=='1'
json.dump(m,open(p,'w'),indent=1)
PY
done
