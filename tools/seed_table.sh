#!/bin/bash
# tools/seed_table.sh: every kept seeded change against the check of the property it breaks; one line each (seed, rc, first failing obligation)
cd "$(dirname "$0")/.."
for sd in seeded/*/; do
  sd=${sd%/}
  out=$(tools/seed.sh $sd 2>&1)
  rc=$(echo "$out" | grep -o "rc=[0-9]*" | head -1)
  ob=$(echo "$out" | grep -o "obligation=[^ |]*" | head -2 | tr '\n' ' ')
  echo "$(basename $sd) $rc $ob"
done
