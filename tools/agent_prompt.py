#!/usr/bin/env python3
"""tools/agent_prompt.py <prop> <tag>: creates a scratch worktree /tmp/seedwt.<prop><tag> of /repo HEAD and prints the prompt
for an independent sub-agent (property text only; nothing from /verif)."""
import json, os, subprocess, sys
prop, tag = sys.argv[1], sys.argv[2]
root = os.path.dirname(os.path.dirname(os.path.abspath(__file__)))
p = [json.loads(l) for l in open(os.path.join(root, 'properties.jsonl')) if json.loads(l)['id'] == prop][0]
wt = f'/tmp/seedwt.{prop}{tag}'
subprocess.run(f'git -C /repo worktree add -q --detach {wt} HEAD', shell=True, check=True)
hint = ' '.join(sys.argv[3:])
print(f"""You are helping test a verification harness for the Python library pytoniq-core (pure-Python TON blockchain primitives).
Work ONLY inside the scratch git worktree {wt} (a checkout of the library; the package is {wt}/pytoniq_core, tests in {wt}/tests).
Do not read or touch /verif or /repo. Use /venv/bin/python (run things with PYTHONPATH={wt}).

Here is a semantic property the library is supposed to satisfy:

TITLE: {p['title']}
STATEMENT: {p['statement']}
QUANTIFIER: {p['quantifier']['text']}
CODE ANCHORS: {json.dumps(p['anchors']['mechanism'])}

Your task: make ONE small, realistic change to the library source (the kind of regression a refactor, an "optimisation" or a
careless bug fix could introduce) that BREAKS this property while the code still imports and the existing test suite still passes
(`cd {wt} && /venv/bin/python -m pytest -q -p no:cacheprovider tests` must report 51 passed).
The breakage must need something SPECIFIC to manifest - an unusual input, a particular boundary value, a particular combination of
optional fields/constructors, a multi-step sequence, or two cooperating sites that each look fine alone - NOT something that ordinary
use or the simplest example would expose at once. {hint}

Deliver, in the directory {wt}/_seed/ :
  1. patch.diff  - `git -C {wt} diff -- pytoniq_core > {wt}/_seed/patch.diff` (only library files; do not commit)
  2. demo.py     - a small stand-alone program (imports pytoniq_core from PYTHONPATH) that exits 0 and prints PASS on the ORIGINAL
                   code and exits 1 printing FAIL with a short explanation on the CHANGED code. It must exercise the property
                   through the library's public API with the specific input that makes the change manifest.
  3. meta.json   - {{"property": "{prop}", "summary": "<what was changed>", "needs": "<what it needs in order to manifest>", "files": ["<changed files>"]}}
Verify yourself: demo.py passes on the original (use `git apply -R _seed/patch.diff` then `git apply _seed/patch.diff` - do NOT use `git stash`, the stash is shared with other worktrees) and fails with the change applied; the 51 tests pass with the change.
Leave the change applied in the worktree when you finish. Report the summary in your final message.""")
