#!/usr/bin/env python3
"""tools/mutsweep.py [--props C01,C02] [--per-func N] [--seed S] [--jobs J] [--out FILE] [--only substring]

Development tool (not a registered check): mechanical mutation sweep of the functions under contract.

For every function that some evidence file lists under `functions_under_contract`, AST mutants are generated inside its line
span (comparison boundaries, arithmetic operators, integer constants +-1, and/or, dropped `not`, flipped boolean keyword
constants, deleted call / del / augmented-assignment statements, dropped `if ...: raise` guards).  Each mutant is written to a
scratch copy of the package under $(mktemp -d) (removed afterwards), the 51 pinned tests are run against it (mutants the tests
kill are not interesting and are dropped), and then the quick check of every property that has the function under contract is
run with VERIF_REPO pointing at the scratch copy, stopping at the first check that reports a violation.

Output: one JSON line per mutant in --out (default /tmp/mutsweep.jsonl):
  {"func", "file", "line", "mut", "tests": "pass|fail", "verdict": "killed|survived|fault", "by": "<prop>", "first": "<first obligation>"}
Survivors are either equivalent mutants (behaviour unchanged on every valid input) or gaps; they are triaged by hand.
"""
import argparse, ast, copy, json, os, random, shutil, subprocess, sys, tempfile, glob
from concurrent.futures import ThreadPoolExecutor

ROOT = os.path.dirname(os.path.dirname(os.path.abspath(__file__)))
REPO = os.environ.get('VERIF_SRC', '/repo')


def targets(props):
    funcs = {}
    for ev in sorted(glob.glob(os.path.join(ROOT, 'evidence', 'C*.json'))):
        j = json.load(open(ev))
        pid = j['property_id']
        for f in j['coverage'].get('functions_under_contract', []):
            if not f.get('lines') or not (f.get('file') or '').endswith('.py'):
                continue
            key = (f['file'], f['qualname'], tuple(f['lines']))
            funcs.setdefault(key, set()).add(pid)
    if props:
        funcs = {k: v for k, v in funcs.items() if v & set(props)}
    return funcs


CMP = {ast.Lt: ast.LtE, ast.LtE: ast.Lt, ast.Gt: ast.GtE, ast.GtE: ast.Gt, ast.Eq: ast.NotEq, ast.NotEq: ast.Eq,
       ast.Is: ast.IsNot, ast.IsNot: ast.Is, ast.In: ast.NotIn, ast.NotIn: ast.In}
BIN = {ast.Add: ast.Sub, ast.Sub: ast.Add, ast.Mult: ast.FloorDiv, ast.FloorDiv: ast.Mult, ast.LShift: ast.RShift,
       ast.RShift: ast.LShift, ast.BitAnd: ast.BitOr, ast.BitOr: ast.BitAnd, ast.Mod: ast.FloorDiv}


def gen_mutants(tree, lo, hi):
    """yields (description, line, mutate(tree_copy_node)) as closures over node paths; implemented by index in ast.walk order"""
    nodes = list(ast.walk(tree))
    out = []
    for idx, n in enumerate(nodes):
        ln = getattr(n, 'lineno', None)
        if ln is None or not (lo <= ln <= hi):
            continue
        if isinstance(n, ast.Compare):
            for k, op in enumerate(n.ops):
                if type(op) in CMP:
                    out.append((idx, ln, f'cmp[{k}] {type(op).__name__}->{CMP[type(op)].__name__}', ('cmp', k)))
        elif isinstance(n, ast.BinOp) and type(n.op) in BIN:
            out.append((idx, ln, f'binop {type(n.op).__name__}->{BIN[type(n.op)].__name__}', ('bin',)))
        elif isinstance(n, ast.AugAssign) and type(n.op) in BIN:
            out.append((idx, ln, f'augop {type(n.op).__name__}->{BIN[type(n.op)].__name__}', ('bin',)))
            out.append((idx, ln, 'delete augassign', ('del',)))
        elif isinstance(n, ast.Constant) and type(n.value) is int and 0 <= n.value <= 1 << 16:
            out.append((idx, ln, f'const {n.value}->{n.value + 1}', ('const', n.value + 1)))
            if n.value > 0:
                out.append((idx, ln, f'const {n.value}->{n.value - 1}', ('const', n.value - 1)))
        elif isinstance(n, ast.Constant) and type(n.value) is bool:
            out.append((idx, ln, f'const {n.value}->{not n.value}', ('const', not n.value)))
        elif isinstance(n, ast.BoolOp):
            out.append((idx, ln, f'boolop {type(n.op).__name__} flipped', ('bool',)))
        elif isinstance(n, ast.UnaryOp) and isinstance(n.op, ast.Not):
            out.append((idx, ln, 'drop not', ('unnot',)))
        elif isinstance(n, ast.UnaryOp) and isinstance(n.op, ast.USub):
            out.append((idx, ln, 'drop unary minus', ('unnot',)))
        elif isinstance(n, ast.Expr) and isinstance(n.value, ast.Call):
            out.append((idx, ln, 'delete call statement ' + ast.unparse(n)[:50], ('del',)))
        elif isinstance(n, ast.Delete):
            out.append((idx, ln, 'delete del statement', ('del',)))
        elif isinstance(n, ast.If) and len(n.body) == 1 and isinstance(n.body[0], ast.Raise) and not n.orelse:
            out.append((idx, ln, 'drop guard ' + ast.unparse(n.test)[:50], ('del',)))
        elif isinstance(n, ast.If):
            out.append((idx, ln, 'negate if ' + ast.unparse(n.test)[:50], ('negif',)))
        elif isinstance(n, ast.Slice):
            if n.lower is not None:
                out.append((idx, ln, 'slice lower +1', ('slice', 'lower', 1)))
            if n.upper is not None:
                out.append((idx, ln, 'slice upper -1', ('slice', 'upper', -1)))
    return out


def apply_mut(tree, idx, how):
    t = copy.deepcopy(tree)
    nodes = list(ast.walk(t))
    n = nodes[idx]
    k = how[0]
    if k == 'cmp':
        n.ops[how[1]] = CMP[type(n.ops[how[1]])]()
    elif k == 'bin':
        n.op = BIN[type(n.op)]()
    elif k == 'const':
        n.value = how[1]
    elif k == 'bool':
        n.op = ast.Or() if isinstance(n.op, ast.And) else ast.And()
    elif k == 'unnot':
        # replace node by its operand: find parent
        for p in nodes:
            for f, v in ast.iter_fields(p):
                if v is n:
                    setattr(p, f, n.operand)
                elif isinstance(v, list):
                    for i, e in enumerate(v):
                        if e is n:
                            v[i] = n.operand
    elif k == 'del':
        for p in nodes:
            for f, v in ast.iter_fields(p):
                if isinstance(v, list):
                    for i, e in enumerate(v):
                        if e is n:
                            v[i] = ast.Pass()
    elif k == 'negif':
        n.test = ast.UnaryOp(op=ast.Not(), operand=n.test)
    elif k == 'slice':
        cur = getattr(n, how[1])
        setattr(n, how[1], ast.BinOp(left=cur, op=ast.Add(), right=ast.Constant(value=how[2])))
    ast.fix_missing_locations(t)
    return ast.unparse(t)


def sh(cmd, **k):
    return subprocess.run(cmd, shell=True, capture_output=True, text=True, **k)


def run_one(job):
    file, qual, line, desc, src, props = job
    D = tempfile.mkdtemp(prefix='mutsweep.', dir='/tmp')
    rec = {'func': qual, 'file': file, 'line': line, 'mut': desc}
    try:
        shutil.copytree(os.path.join(REPO, 'pytoniq_core'), os.path.join(D, 'pytoniq_core'))
        shutil.copytree(os.path.join(REPO, 'tests'), os.path.join(D, 'tests'))
        open(os.path.join(D, file), 'w').write(src)
        t = sh('/venv/bin/python -m pytest -q -x -p no:cacheprovider --timeout=300 tests', cwd=D,
               env=dict(os.environ, PYTHONPATH=D, PYTHONDONTWRITEBYTECODE='1'))
        tail = (t.stdout.strip().splitlines() or [''])[-1]
        if t.returncode != 0 or ' passed' not in tail:
            rec['tests'] = 'fail'
            return rec
        rec['tests'] = 'pass'
        rec['verdict'] = 'survived'
        rec['ran'] = []
        for p in sorted(props):
            env = dict(os.environ, VERIF_REPO=D, VERIF_REPLAY_DIR=D + '/replays', VERIF_EVIDENCE_DIR=D + '/evidence')
            try:
                r = subprocess.run(f'./check {p} quick', shell=True, capture_output=True, text=True, cwd=ROOT, env=env, timeout=1500)
                rc, out = r.returncode, r.stdout
            except subprocess.TimeoutExpired:
                rc, out = 124, ''
            rec['ran'].append(f'{p}:{rc}')
            if rc == 1:
                rec['verdict'] = 'killed'
                rec['by'] = p
                obs = [l.strip() for l in out.splitlines() if l.strip().startswith('obligation=')]
                rec['first'] = obs[0][:160] if obs else ''
                break
            if rc != 0:
                rec['verdict'] = 'fault'
                rec['by'] = p
                rec['tail'] = out[-400:]
        return rec
    finally:
        shutil.rmtree(D, ignore_errors=True)


def main():
    ap = argparse.ArgumentParser()
    ap.add_argument('--props', default='')
    ap.add_argument('--per-func', type=int, default=3)
    ap.add_argument('--seed', type=int, default=1)
    ap.add_argument('--jobs', type=int, default=3)
    ap.add_argument('--out', default='/tmp/mutsweep.jsonl')
    ap.add_argument('--only', default='')
    ap.add_argument('--list', action='store_true')
    a = ap.parse_args()
    rnd = random.Random(a.seed)
    props = [p for p in a.props.split(',') if p]
    jobs = []
    trees = {}
    for (file, qual, (lo, hi)), ps in sorted(targets(props).items()):
        if a.only and a.only not in qual:
            continue
        if file not in trees:
            trees[file] = ast.parse(open(os.path.join(REPO, file)).read())
        ms = gen_mutants(trees[file], lo, hi)
        rnd.shuffle(ms)
        for idx, ln, desc, how in ms[:a.per_func]:
            try:
                src = apply_mut(trees[file], idx, how)
                compile(src, file, 'exec')
            except Exception as e:
                continue
            jobs.append((file, qual, ln, desc, src, (ps & set(props)) if props else ps))
    print(f'{len(jobs)} mutants', file=sys.stderr)
    if a.list:
        for j in jobs:
            print(j[1], j[2], j[3], sorted(j[5]))
        return
    with open(a.out, 'a') as fo, ThreadPoolExecutor(a.jobs) as ex:
        for rec in ex.map(run_one, jobs):
            fo.write(json.dumps(rec) + '\n')
            fo.flush()
            print(rec.get('tests'), rec.get('verdict'), rec['func'], rec['line'], rec['mut'], rec.get('by', ''), file=sys.stderr)


if __name__ == '__main__':
    main()
