#!/usr/bin/env python3
"""tools/update_counts.py: rewrites the unit counts in the per-property table of docs/design_tail_src.md from evidence/*.json
(the number before the first colon of the third column), then rebuilds DESIGN.md."""
import json, os, re, subprocess
root = os.path.dirname(os.path.dirname(os.path.abspath(__file__)))
p = os.path.join(root, 'docs', 'design_tail_src.md')
s = open(p).read()
for i in range(1, 21):
    pid = f'C{i:02d}'
    ev = json.load(open(os.path.join(root, 'evidence', pid + '.json')))['coverage']
    n, d = ev['obligations'], ev['discharged']
    def rep(m):
        rest = m.group(3)
        rest = re.sub(r'^\d+( \(\d+ = [^)]*\))?', lambda mm: str(n) + (mm.group(1) or ''), rest, count=1)
        return m.group(1) + m.group(2) + rest
    s = re.sub(r'(\| ' + pid + r' \| )(\w+ \| )([^\n]*)', rep, s, count=1)
open(p, 'w').write(s)
subprocess.run(['python3', os.path.join(root, 'tools', 'build_design.py')], check=True)
