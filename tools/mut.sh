#!/bin/bash
# tools/mut.sh <prop> <file-relative-to-repo> <sed-expr> [more sed-exprs...]  : run a check against a mutated scratch copy
prop=$1; file=$2; shift 2
D=$(mktemp -d /tmp/mut.XXXXXX)
cp -r /repo/pytoniq_core $D/
for e in "$@"; do sed -i "$e" $D/$file; done
if diff -q /repo/$file $D/$file >/dev/null; then echo "MUTATION DID NOT APPLY"; rm -rf $D; exit 2; fi
cd /verif && VERIF_REPO=$D VERIF_REPLAY_DIR=$D/replays ./check $prop ${TIER:-quick} 2>&1 | grep -E "VIOLATION|obligation=|UNDECIDED|CHECKER|discharged" | head -${LINES_MAX:-12}
rm -rf $D
