NOTES = ('All checks go through ./check, which first runs ./setup.sh (idempotent, offline). Evidence is rewritten on every run. '
         'KNOWN_FINDINGS.txt lists recorded genuine defects and fixed: entries.')
T_BASE = ('trusted: CPython 3.12, z3, the /verif/vf proxies+models+loader (conformance-tested against the real bitarray and the native '
          'package on every run), hashlib digests as uninterpreted functions; Python ints are mathematical (exact)')
CHECKS = {
 'C18': dict(category='proof',
             text='Unbounded proof for every byte string: VCs generated from the AST of the real crc16/crc32c (tables, loop body, init, '
                  'final xor, byte order) and discharged by z3 in the bit-vector theory: each table entry, and the loop body for ALL '
                  'register states and ALL bytes, equal the bitwise definition; register range (no IndexError) and exactness of the '
                  '64-bit encoding are side obligations; induction over the input length is by the loop invariant '
                  'crc == spec_state(data[:i]). A native differential run is the bounded sanity check of the extraction.',
             note=T_BASE + '; loop shape (`for byte in data`, no break/continue, single state variable) checked structurally on the AST',
             technique='AST-generated verification conditions (bit-vector step lemma + loop invariant), z3',
             design_ref='DESIGN.md §5 C18'),
}
_NYB = 'not yet built in this session (framework under construction); see DESIGN.md §5 for the plan'
NOT_APPLICABLE = {f'C{i:02d}': _NYB for i in range(1, 21) if f'C{i:02d}' not in CHECKS}
