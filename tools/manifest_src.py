NOTES = ('All checks go through ./check, which first runs ./setup.sh (idempotent, offline). Evidence is rewritten on every run. '
         'KNOWN_FINDINGS.txt lists recorded genuine defects and fixed: entries.')
T_BASE = ('trusted: CPython 3.12, z3, the /verif/vf proxies+models+loader (conformance-tested against the real bitarray and the native '
          'package on every run), hashlib digests as uninterpreted functions; Python ints are mathematical (exact)')
CHECKS = {
 'C01': dict(category='proof',
             text='Cell.__init__ and the accessors (hash, get_hash(l), get_depth(l), calculate_representation_hash, __eq__, __hash__) are '
                  'proved against the TON representation (vf/spec/cell.py) for data of every length 8q+m (opaque, symbolic q) and 0..4 '
                  'ABSTRACT children of which only the class invariant is known (symbolic hash, symbolic depth 0..1023): so the result '
                  'holds for every DAG below, and by structural induction for every DAG; raises iff depth would reach 1024. Every '
                  'construction route (builder, slice after reads, copy, conversions) is proved to yield the specification hash of the '
                  'abstract (bits, refs) it denotes and to own its containers. The BoC parse route is carried by C03 (per-cell decode).',
             note=T_BASE + '; SHA-256 is an uninterpreted deterministic function: equal inputs are recognised by bit-string equality',
             technique='contracts on the real functions, symbolic execution over all paths with abstract children (structural induction), z3 (LIA + EUF digests)',
             design_ref='DESIGN.md §5 C01'),
 'C02': dict(category='proof',
             text='Finite case split (cell type x own level mask 1..7 x kinds/masks of the children: non-pruned children with mask 0..7, '
                  'pruned-branch children with mask 1..7) with SYMBOLIC contents (own data, per-level hashes/depths of abstract children, '
                  'stored hashes/depths of pruned children): resolve_mask, calculate_hashes, get_hash(l), get_depth(l) for l=0..3 equal the '
                  'TON specification (vf/spec/cell.py); every spec-valid cell of every type is constructible (refused iff a depth reaches '
                  '1024); LevelMask algebra exhaustive; pruning invariance as a relational obligation (parent over subtree A vs parent '
                  'over a pruned branch carrying A\'s hash/depth). Quick tier: all single children, all pairs over six kinds, samples of '
                  '3/4 children; thorough tier: all pairs over 15 kinds and all triples/quadruples over 4/3 kinds. The parse route '
                  '(exotic type byte) is carried by C03/C05.',
             note=T_BASE + '; SHA-256 uninterpreted',
             technique='contracts on the real functions, symbolic execution over all paths with abstract children, exhaustive finite case split, z3',
             design_ref='DESIGN.md §5 C02'),
 'C03': dict(category='other',
             text='Deductive: the WHOLE pipeline (to_boc -> Boc -> header -> per-cell decode -> graph rebuild) runs symbolically on every '
                  'DAG shape with <= 3 cells, two 4-cell sharing shapes and a Merkle-proof/pruned/library DAG, with symbolic contents and '
                  'data lengths, under the 6 option sets (quick tier: all option sets for the small shapes, 2 for the others; thorough: '
                  'all): the parsed root has the same hash and recursively the same bits, types and references, and sharing is kept; '
                  'bytes / hex / base64 forms hold the same data; Cell / Slice / Builder entry points return the same root.  For larger '
                  'DAGs the round trip is the composition of C04 (to_boc emits the specification encoding, header widths unbounded) and '
                  'C05 (the parser decodes every specification encoding); that composition and Cell.order on unbounded DAGs are a BOUNDED '
                  'native stand-in: random DAGs with sharing and exotic cells, 255/256/257 cells, chains of depth 1023, shared ladders, '
                  'all option sets x encodings x entry points.',
             note=T_BASE + '; crc32c by contract (C18); T2/T4 hex and base64 inverse pairs',
             technique='contracts on the real functions, symbolic execution of the whole serialise/parse pipeline (bounded cell count, symbolic contents), z3; native round trips (bounded) for large DAGs',
             design_ref='DESIGN.md §5 C03'),
 'C04': dict(category='other',
             text='Deductive: Cell.serialize = d1 d2 pad(bits) ++ k-byte reference indexes (all r, k, symbolic data/indexes); the whole '
                  'of to_boc on every DAG shape with <= 3 cells and two 4-cell sharing shapes (contents and data lengths symbolic) under '
                  'all 6 option sets equals the specification encoding (vf/spec/boc.py): header, flag byte, root 0, index = cumulative end '
                  'offsets (x2 with cache bits), sufficient off_bytes, topological order with every cell once, CRC-32C over everything '
                  'before it (crc32c by its C18 contract); header widths for ARBITRARY cell counts 2..2^32-1 and arbitrary reference '
                  'indexes via a mechanical split of to_boc after the statement fixing the cell count and a havoced state.  BOUNDED: the '
                  'ordering algorithm (topological, duplicate-free for every DAG) — exhaustive over all DAG shapes with <= 5 cells, '
                  'random DAGs, size boundaries (255/256/257 cells) against the strict specification decoder.',
             note=T_BASE + '; crc32c by contract; the DAG-ordering induction is bounded, never counted as proved',
             technique='contracts on the real functions, symbolic execution (bounded cell count, symbolic contents), loop/statement cut with havoc for the unbounded width obligations, z3; exhaustive native enumeration (bounded) for Cell.order',
             design_ref='DESIGN.md §5 C04'),
 'C05': dict(category='other',
             text='Deductive: for every header a conforming encoder can write (3 magics x size 1..4 x off_bytes x index/CRC/cache-bit sets '
                  'x 1-2 roots x 1 or 3 index entries; all count fields and index entries SYMBOLIC over their full width; opaque cell data '
                  'of symbolic length) deserialize_boc_header returns exactly the encoded fields, root list and cell data; acceptance '
                  'implies exact total length (any extension or truncation raises) and, with a CRC, trailer == crc32c(prefix) for an '
                  'arbitrary trailer; deserialize_cell equals the specification cell decoding for every data length 0..1023, reference '
                  'count, level, stored hashes, exotic type byte (signed), and rejects absent/short/exotic-short cells; Boc.deserialize with '
                  'SYMBOLIC reference indexes returns cells only for forward existing references; bit-vector lemmas on the CRC-32C step '
                  '(linearity, non-zero in => non-zero out) make any single-bit difference change the CRC for every length.  BOUNDED: '
                  'composition on whole bags and the header-field cases of single-bit flips — random foreign encodings with every encoder '
                  'freedom, every single-bit flip of CRC-protected ones, all truncations, extensions.',
             note=T_BASE + '; crc32c by contract (C18); list lengths in the header obligations are bounded (<=2 roots, <=3 index entries)',
             technique='contracts on the real parser functions, symbolic execution over structured symbolic encodings produced by an independent specification encoder, bit-vector lemmas, z3; native corruption sweep (bounded)',
             design_ref='DESIGN.md §5 C05'),
 'C08': dict(category='proof',
             text='Heap invariant I (no container of a Cell is reachable from any Slice/Builder/other Cell; distinct derived objects '
                  'share no container) is proved to be re-established by EVERY derivation route (begin_parse, to_slice, from_cell, '
                  'to_builder, copy, to_cell after reads, store_cell/store_slice, end_cell/to_cell/to_slice and their compositions): '
                  'the derived object shares no container with its source, carries its content (symbolic bits of symbolic length, '
                  'abstract children), and mutating everything derived leaves the source cell untouched (bits, refs, hashes, depths, '
                  'cached fields, container identities).  frame(Cell.m) = {} for every Cell accessor/conversion, the constructor leaves '
                  'its arguments (incl. a plain unaligned bitarray) untouched, argument-taking stores leave their arguments untouched. '
                  'No hidden state: exhaustive AST scan of the package (no mutable default argument or module-level container is '
                  'mutated, directly or through package calls) plus dynamic double-runs.  By induction over the history the property '
                  'holds for every interleaving; a random stateful exploration is the bounded stand-in.',
             note=T_BASE + '; aliasing is checked on the real CPython object graph (identity), contents are symbolic',
             technique='frame conditions and a heap (ownership) invariant as contracts on the real methods, symbolic execution over all paths on the real object graph, static AST scan for hidden state; z3',
             design_ref='DESIGN.md §5 C08'),
 'C09': dict(category='other',
             text='Deductive per-function contracts on the real code: key admission for ALL integers (accepted iff 0 <= k < 2^size, stored '
                  'under exactly k) and normalisation of every key form (bytes, bit text, Address = 267-bit addr_std image, hashed text, '
                  'key serializer); key -> n-bit text; label writer emits exactly the canonical encoding and the reader inverts every '
                  'encoding (symbolic label bits, symbolic remaining key length); edge/node level with recursive calls replaced by their '
                  'contract; optional-dictionary wrappers.  Tree construction (build_tree/fork_map/find_common_prefix recurse over SETS '
                  'of keys: sorted-LCP, partition by next bit) is beyond SMT and is a BOUNDED stand-in: exhaustive for key widths 1..3 '
                  '(4 in the thorough tier) over every key set and every insertion order of up to 4 keys, random up to width 900 / 200 '
                  'keys.  Level other: proof for the per-function part, bounded for the tree.',
             note=T_BASE + '; the bounded tree part is never counted as proved',
             technique='contracts on the real functions + symbolic execution + z3 for the per-function part; exhaustive/random native enumeration (labelled bounded) for tree construction',
             design_ref='DESIGN.md §5 C09'),
 'C10': dict(category='other',
             text='Deductive: label-kind selection proved for ALL (label length n, remaining key length m, all-same-bit) triples with '
                  '0 <= n <= m <= 1023 symbolically (is_same replaced by its contract, which is proved for lengths 0..12 with symbolic bits); '
                  'the three label writers emit exactly hml_short/hml_long/hml_same; deserialize_hml accepts every spec-valid encoding of '
                  'every kind (canonical or not) and leaves exactly the rest; augmented node order (leaf: extra then value; fork: left, '
                  'right, then extra); every parser returns no leaves and raises nothing on exotic (pruned) subtrees at any remaining key '
                  'length.  Whole-tree canonicity (hash == reference Patricia tree) and parsing of foreign non-canonical / pruned trees are '
                  'BOUNDED stand-ins against vf/spec/hashmap.py (exhaustive widths 1..3, random up to width 900).',
             note=T_BASE + '; the bounded whole-tree part is never counted as proved',
             technique='contracts on the real functions + symbolic execution + z3 (LIA) for the per-function part; native enumeration against an independent Hashmap specification (labelled bounded) for whole trees',
             design_ref='DESIGN.md §5 C10'),
 'C12': dict(category='other',
             text='check_block_signatures accepts IFF the specification predicate holds (non-empty set, every signature names a listed '
                  'validator by SHA256(magic++pubkey), verifies over magic++root_hash++file_hash under that key, signers pairwise '
                  'distinct, 3*signed > 2*total), both directions, for SYMBOLIC non-negative weights, every assignment of signatures to '
                  'validators/foreign keys (all multisets and orders incl. duplicates) and symbolic validity bits — with list lengths '
                  'BOUNDED (<= 3 validators, <= 4 signatures).  Unbounded parts: the fragment after the loops, extracted mechanically '
                  'from the real source (vf/loopcut.py), decides accept iff 3*signed > 2*total for arbitrary accumulated totals; one '
                  'iteration of the signature loop from a state with havoced accumulators adds exactly the named validator\'s weight or '
                  'raises (foreign / duplicate / invalid).  Ed25519 verification enters through its contract (uninterpreted predicate); '
                  'a native boundary grid with real keys is the bounded stand-in.',
             note=T_BASE + '; T6 Ed25519 verify as a deterministic predicate; list lengths bounded in the accept-iff obligation',
             technique='contracts on the real function, symbolic execution over all paths (bounded list lengths, symbolic weights), loop cut with mechanically extracted fragments, z3 (LIA)',
             design_ref='DESIGN.md §5 C12'),
 'C13': dict(category='proof',
             text='For ALL workchains -128..127 and ALL 32-byte hashes (symbolic): to_str lays out tag/workchain/hash/crc16 per the '
                  'specification in the requested alphabet, also after earlier renderings of the same object; Address(to_str(v)) == a with '
                  'the flags as rendered for the raw form and the 8 friendly variants; == / hash contract.  Checksum enforcement for every '
                  'address: (i) the constructor accepts an ARBITRARY 36-byte payload only if bytes 34..35 == crc16(bytes 0..33) (both '
                  'bytes), (ii) crc16 is GF(2)-linear (bit-vector lemma on the byte step that C18 proves the real loop equal to), (iii) '
                  'each of the 48x63 single-symbol error patterns has a non-zero syndrome under the REAL crc16 (finite, exhaustive); '
                  'hence every one-character substitution is rejected.  crc16 enters (i) through its contract (uninterpreted function).',
             note=T_BASE + '; T4 base64 inverse pair (assumed model of the stdlib); crc16 by its C18 contract',
             technique='contracts on the real functions, symbolic execution (uninterpreted crc16/base64 by contract), bit-vector linearity lemma, exhaustive finite syndrome table; z3',
             design_ref='DESIGN.md §5 C13'),
 'C17': dict(category='other',
             text='Deductive: per value kind (null, integers over the whole 257-bit range split by magnitude class, cell, slice, builder, '
                  'nan) VmStackValue.serialize emits exactly the block.tlb encoding (tinyint#01 iff the value fits int64) and deserialize '
                  'inverts every such encoding followed by arbitrary data; tuples of length 0..5 incl. nesting and stacks of depth 0..4 '
                  'against the schema chaining, plus the UNBOUNDED-depth modular step of the stack list (recursive call replaced by a '
                  'recording stub); the eight continuation kinds without control data; frames: the caller\'s lists, tuples (nested too) and '
                  'slices are untouched, serialising twice gives the same cell, parsing twice gives independent tuples.  One recorded '
                  'KNOWN FINDING (vmc_std / vmc_envelope with control data do not round-trip) keeps two units undischarged, hence level '
                  'other.  A random nested-stack round trip is the bounded stand-in.',
             note=T_BASE + '; see KNOWN_FINDINGS.txt for the control-data finding',
             technique='contracts on the real functions, symbolic execution over all paths, recursion replaced by contract stubs for the chaining step, z3 (LIA)',
             design_ref='DESIGN.md §5 C17'),
 'C18': dict(category='proof',
             text='Unbounded proof for every byte string: VCs generated from the AST of the real crc16/crc32c (tables, loop body, init, '
                  'final xor, byte order) and discharged by z3 in the bit-vector theory: each table entry, and the loop body for ALL '
                  'register states and ALL bytes, equal the bitwise definition; register range (no IndexError) and exactness of the '
                  '64-bit encoding are side obligations; induction over the input length is by the loop invariant '
                  'crc == spec_state(data[:i]). A native differential run is the bounded sanity check of the extraction.',
             note=T_BASE + '; loop shape (`for byte in data`, no break/continue, single state variable) checked structurally on the AST',
             technique='AST-generated verification conditions (bit-vector step lemma + loop invariant), z3',
             design_ref='DESIGN.md §5 C18'),
 'C11': dict(category='other',
             text='Deductive: check_proof(c,h) on a REAL Merkle-proof cell over an abstract child of every kind (non-pruned masks 0,1,2,5,7; '
                  'pruned masks 1,2,3,6) accepts IFF stored hash == h and the SPECIFICATION level-0 hash of the child == h, else ProofError; '
                  'ordinary / pruned / library / Merkle-update cells carrying the expected hash are rejected; check_block_header_proof accepts '
                  'IFF hash_0(root) == h and returns hash_0(root[2][1]); check_account_proof (Cell.from_boc and ShardStateUnsplit.deserialize '
                  'by contract) accepts IFF two roots, header hash, state hash committed in the block, account present, and the claimed '
                  'state\'s OWN representation hash equals the committed one (claimed state: ordinary with mask 0/5, pruned, pruned branch that '
                  'merely carries the hash).  Completeness step (relational): the Merkle proof over T with a subtree replaced by a pruned '
                  'branch is accepted against hash(T), any data/siblings; with C02.pruning_invariance this covers every pruning.  Soundness '
                  'step UNDER THE NAMED ASSUMPTION of SHA-256 collision freedom: a change of data (lengths 1,8,77,1023), of a child\'s hash or '
                  'depth, of a stored pruned hash, of the child count or data length changes the level-0 hash of the enclosing real cell; '
                  'induction up the tree is on paper.  Bounded: random trees / prunings / bit-flip mutations with real SHA-256.',
             note=T_BASE + '; SHA-256 collision resistance is ASSUMED for the soundness step only; deserialisers used by check_account_proof are replaced by their contracts (C03/C05/C16)',
             technique='contracts (accept-iff predicates taken from the property) on the real functions, symbolic execution over all paths with abstract cells, relational obligations, z3 (LIA + EUF digests); collision freedom asserted as an axiom where named; native mutation sweep (bounded)',
             design_ref='DESIGN.md §5 C11'),
 'C14': dict(category='other',
             text='The three bundled schema files are read on every run by an independent reader (vf/spec/tl.py) and by the library.  '
                  'Registry (concrete, exhaustive): every declaration gets the same id (CRC32 of the whitespace-normalised text or the '
                  'explicit #id), name, class and fields with conditions; lookups by id/name/class.  Deductive, per constructor whose '
                  'field types the library can express (738 of 796; excluded: double, int32/int53/int64, secure*, vector<T>, Object/Function '
                  'fields - listed in the evidence) x every flag subset (<=3 flag bits exhaustive, else all/none/singles) x rotations over '
                  'bytes/string lengths {0,1,2,3,4,252..257,1000,5000} (every length for the 67 single-bytes-field constructors: C14.symlen) (framing boundary 253/254 and all padding residues), vector '
                  'lengths 0..2, Bool values and boxed alternatives: serialize(schema, v) == TL encoding and deserialize(encoding) == '
                  '(v, len), with all integers, hashes and byte contents SYMBOLIC; nested objects inside bytes fields in auto-deserialise '
                  'mode; BlockId/BlockIdExt bytes and dict round trips, int hash, equal ids hash equally.  Level other because string/bytes '
                  'LENGTHS and vector lengths are a finite rotation (contents symbolic), not symbolic lengths, and raw bytes fields are '
                  'parsed with auto-deserialise off (a raw bytes value starting with a registered id is reinterpreted by design).',
             note=T_BASE + '; T2 UTF-8 encode/decode inverse pair for string fields; zlib.crc32 computed concretely on both sides',
             technique='contracts (TL binary encoding as postcondition) on the real serialize/deserialize, symbolic execution over all paths per constructor and shape, z3; exhaustive concrete comparison of the schema registry; native random values (bounded)',
             design_ref='DESIGN.md §5 C14'),
 'C15': dict(category='other',
             text='Deductive: (room) MessageAny.serialize for 3 header kinds x size profiles (minimal, maximal with anycast and 15-byte '
                  'amounts, extra currencies) x state-init absent / all 32 field combinations x body reference count 0..4 with a body of '
                  'SYMBOLIC bit length 0..1023: never raises whenever the flags fit after the header, the produced cell decodes under the '
                  'schema (info, Maybe(Either StateInit ^StateInit), Either X ^X) to the same message with the Either flags agreeing with '
                  'the placement, stays within cell capacity, and the library parser returns the same message from it; (parse) '
                  'MessageAny.deserialize on every valid encoding generated from block.tlb (3 headers x init absent/inline/by reference x '
                  'body inline/by reference, several shapes); (wrappers) StateInit, TickTock, CurrencyCollection, ExtraCurrencyCollection, '
                  'the three headers, HashUpdate, AccountStatus, WalletV3/V4/Highload data, NFT item/sale data: deserialize agrees field by '
                  'field with the schema encoding (fields symbolic) and serialize(deserialize(e)) == e (re-parse equality where whole '
                  'messages are embedded).  Level other because: header VALUES in the room obligation are restricted to one bit-length '
                  'class per byte length (sizes are what matters there), wrappers with >2 var-integer fields leave one rotating field fully '
                  'general per case, dictionaries have at most two entries, and the Cell constructor is used by contract inside serialize.',
             note=T_BASE + '; Cell(bits, refs) inside Builder.end_cell is replaced by its C01/C07 contract in the room obligation; custom '
                  'wallet/NFT layouts are transcribed in vf/spec/custom_supplement.tlb',
             technique='contracts on the real serialize/deserialize functions (postconditions generated from block.tlb), symbolic execution over all paths with symbolic body size, z3 (LIA); callee Cell() by contract',
             design_ref='DESIGN.md §5 C15'),
 'C16': dict(category='other',
             text='Deductive, per covered TL-B type (59 types: Transaction and the seven description kinds, all phases, in/out message '
                  'descriptors and envelopes incl. v2/metadata/deferred kinds, accounts, shard accounts, block header types, value flows, '
                  'shard descriptors, McStateExtra/McBlockExtra/BlockExtra/ShardState/Block, validator sets, catchain config): an ENCODER '
                  'GENERATED FROM THE SCHEMA TEXT (vf/spec/tlb.py reads /repo block.tlb each run + a small supplement) emits the encoding '
                  'of a value whose fields are all SYMBOLIC over their full range; the real deserialize runs on encoding ++ rest and every '
                  'returned field must equal the encoded value (unsigned stays unsigned), with exactly the encoded bits and references '
                  'consumed.  Shape choices are a finite case split: every constructor alternative, every Maybe/Either/conditional field '
                  'and guard value, every alternative of direct fields, dictionary shapes (empty / one leaf / fork with and without a '
                  'common prefix; plain, inline and augmented), address kinds, and var-integer byte lengths rotated so each field takes '
                  'each length; exhaustive up to 40 combinations per type, otherwise a covering sample (every alternative of every choice '
                  'point at least twice) - stated per type in the evidence.  Nested types appear under two profiles (all-first / all-last '
                  'alternatives) and are themselves obligations.  NOT deductive: dictionaries beyond two leaves (C09/C10 carry the tree '
                  'walk), the composition over unboundedly nested ^Transaction chains.  Known finding: addr_var addresses.',
             note=T_BASE + '; the TL-B reader/encoder in vf/spec/tlb.py and the attribute-name map in harness/tlbcheck.py (which library '
                  'attribute carries which schema field) are trusted; leaf cells have concrete depth 0',
             technique='contracts (field-by-field postconditions generated from block.tlb) on the real deserialize functions, symbolic execution over all paths per shape, z3 (LIA); finite shape split partly sampled, hence level other',
             design_ref='DESIGN.md §5 C16'),
 'C19': dict(category='other',
             text='Ghost counters (in-memory loader rewrite R3: a tick at every loop head of the listed functions, applied to the source '
                  'read from /repo on each run) with postconditions bounding them.  Deductive: TlSchemas.deserialize on a (vector T) field '
                  'whose 32-bit length field is SYMBOLIC over its whole range (T in int, long, int256, two bare composites; tails of 0/3/8 '
                  'symbolic bytes) raises or iterates at most once per remaining input byte; Cell.__init__ over ABSTRACT children performs '
                  'at most 4 + 4(1+2r) loop iterations on every path (never walks below its direct children: bottom-up hashing is O(n+e)); '
                  'deserialize_hml on symbolic bits iterates at most bits+1 times.  BOUNDED (exact counts): Cell.order / to_boc / BoC parse '
                  'loop iterations == (n+e)+n resp. <= 4n+2e(+16) on maximal-sharing ladders to depth 400, chains of depth 1000, diamonds, '
                  'random DAGs of up to 300 cells and on re-serialising parsed ladders; adversarial byte strings (huge count / length '
                  'fields, truncations, legacy magics) for the BoC and TL parsers under a tick cap of 8*len+64.  The induction "order '
                  'is linear for every DAG" is not within SMT reach and stays bounded; parsing a dictionary whose cells are shared does work '
                  'proportional to the UNFOLDED tree (the size of the result), which is not bounded by the DAG size - stated limitation.',
             note=T_BASE + '; work is measured in loop-head ticks, not wall-clock; native run-aways are cut by a tick cap and reported as violations',
             technique='ghost counters added by an in-memory AST rewrite of the real functions, postconditions ticks <= a*|input|+b discharged by symbolic execution + z3 for the per-call bounds; exact tick counts on enumerated/sampled DAG families and adversarial inputs (bounded)',
             design_ref='DESIGN.md §5 C19'),
 'C20': dict(category='other',
             text='Thin deductive layer over ASSUMED primitives: the real AdnlChannel.__init__/encrypt/decrypt, '
                  'create_aes_ctr_sipher_from_key_n_data and get_key_aes_id run on symbolic 32-byte secrets/ids in all three orderings of '
                  'the ids: A.enc_key == B.dec_key, A.dec_key == B.enc_key, the key id sent is the one the peer expects, the packet is key id '
                  '++ SHA256(x) ++ ciphertext, AES key = k[0:16]++h[16:32] and counter block = h[0:4]++k[20:32] are the SAME on the decrypting '
                  'side (so the peer recovers x, given AES-CTR inverse).  Everything that is a property of the libraries (X25519 '
                  'commutativity, AES-CTR, Ed25519 signatures verifying / failing for other message, key, altered signature; mnemonic '
                  'validity; deterministic key derivation) is ASSUMED (T6) and only SAMPLED natively with the real libraries: bounded.  '
                  'Termination of mnemonic_new is probabilistic and not claimed.',
             note=T_BASE + '; T6: X25519 commutativity, AES-CTR inverse, Ed25519 unforgeability are assumptions about dependencies; the bounded parts are labelled bounded and never counted as proved',
             technique='contracts on the real channel functions with the cryptographic primitives replaced by assumed contracts, symbolic execution over all paths, z3; native sampling with the real libraries (bounded) for signatures and mnemonics',
             design_ref='DESIGN.md §5 C20'),
 'C06': dict(category='proof',
             text='Per-operation two-sided contracts proved on the real Builder/Slice/TvmBitarray code for symbolic values at a '
                  'symbolic fill level p (opaque prefix) and with an opaque rest R of symbolic length: store_X writes exactly the TL-B '
                  'encoding from an independent spec (vf/spec/enc.py), load_X on enc ++ R returns the value and leaves R, preload_X '
                  'returns the same and consumes nothing. Widths 1..257 and all var-int byte-length classes are exhaustive case '
                  'splits; because P and R are generic the facts compose for every sequence/interleaving. Snake chains are proved '
                  'for symbolic contents at fixed lengths around every cell boundary (bounded in length); the text form of '
                  'addresses is a native bounded run (its parsing is C13).',
             note=T_BASE + '; T2 UTF-8 encode/decode inverse pair for strings',
             technique='contracts on the real functions, symbolic execution of the real code over all paths, z3 (LIA)',
             design_ref='DESIGN.md §5 C06'),
 'C07': dict(category='proof',
             text='Two-sided capacity/range contracts (raises iff value unrepresentable or |bits|+|enc|>1023 or |refs|+k>4; '
                  'Inv(Builder) preserved) for every store incl. store_cell/store_slice at symbolic fill levels; read contracts on '
                  'OPAQUE slices of symbolic length (raises iff fewer bits/refs remain, otherwise exactly the next n bits are '
                  'returned and consumed); every Cell->Slice route (also from a plain bitarray) yields capacity-checked bits; '
                  'end_cell/to_cell/to_slice of a builder satisfying the invariant yield exactly its bits/refs over abstract children.',
             note=T_BASE,
             technique='contracts (raises-iff, class invariant) on the real functions, symbolic execution over all paths, z3 (LIA)',
             design_ref='DESIGN.md §5 C07'),
}
_NYB = 'not yet built in this session (framework under construction); see DESIGN.md §5 for the plan'
NOT_APPLICABLE = {f'C{i:02d}': _NYB for i in range(1, 21) if f'C{i:02d}' not in CHECKS}


# ---- additions of the sixth / seventh seed rounds and the mutation sweep (appended to the level texts) ----------------------
_ADD = {
    'C01': 'Also: a cell and the aligned cell whose data is its padded image, created one after the other, each report their own specification hash (no digest remembered under a lossy key); the descriptor accessors with their default arguments.',
    'C03': 'Also deductive: cells at the upper end of the capacity (1015/1016/1017/1023 data bits) round-trip.',
    'C04': 'Also deductive: one cell object serialised inside several different bags gives the specification encoding of each bag (no per-object serialisation state); cells of 1015..1023 data bits.',
    'C06': 'Also: preload_string() / preload_ref(k) / store_snake_string with and without prefix.',
    'C07': 'Also: a stated width of 0 (or negative) refuses every non-zero value and stores nothing.',
    'C08': 'Also deductive: to_boc of one cell object in several bags (no state carried between calls); the random histories parse every serialisation back.',
    'C09': 'Also deductive: optional dictionaries in the middle of a cell, after consumed references, read with preload_dict then load_dict.',
    'C10': 'Also deductive: labels at every remaining key length m >= n including m = 0 (empty long/same labels); the HashmapAugE head (empty / root form, root extra consumed after the reference, reference cursor honoured).',
    'C12': 'Also: the contract of verify_sign that the acceptance obligation relies on is an obligation of its own (the primitive receives exactly the given key, message and signature by value); BOUNDED native forgeries with real Ed25519 (combined-form and length-altered signatures by a listed validator are refused).',
    'C14': 'Also: BlockIdExt == holds iff all five fields agree.',
    'C17': 'Also deductive: serialising again after a value was changed in place (nested tuple, outer tuple, stack list) gives the schema encoding of the changed stack.',
    'C19': 'Also BOUNDED: equal-but-distinct twin cells cross-wired to depth 60 (built, and parsed from a bag that lists every cell twice): Cell.__eq__/__hash__ calls and loop iterations stay linear.',
    'C20': 'Also BOUNDED: mnemonics generated with explicit length 24 and with passwords are valid (other word counts are outside the domain: mnemonic_is_valid demands 24 words).',
}
for _k, _v in _ADD.items():
    CHECKS[_k]['text'] = CHECKS[_k]['text'].rstrip() + '  ' + _v
