#!/usr/bin/env python3
"""tools/keep_seed.py <seed_dir> <name>  — confirm a seeded change in a scratch worktree and keep it as seeded/<name>/.
Confirms: patch applies to a clean worktree of /repo HEAD; the 51 pinned tests pass with it; demo.py FAILS with it and
PASSES without it.  Writes seeded/<name>/{patch.diff,demo.py,meta.json}.  The scratch worktree is removed."""
import json, os, shutil, subprocess, sys, tempfile
sd, name = sys.argv[1], sys.argv[2]
ROOT = os.path.dirname(os.path.dirname(os.path.abspath(__file__)))
wt = tempfile.mkdtemp(prefix='keepseed.', dir='/tmp')
os.rmdir(wt)
def sh(cmd, **k):
    return subprocess.run(cmd, shell=True, capture_output=True, text=True, **k)
ran = []
try:
    r = sh(f'git -C /repo worktree add -q --detach {wt} HEAD'); assert r.returncode == 0, r.stderr
    head = sh('git -C /repo rev-parse --short HEAD').stdout.strip()
    env = dict(os.environ, PYTHONPATH=wt)
    r0 = sh(f'/venv/bin/python {sd}/demo.py', cwd=wt, env=env)
    ran.append(f'clean tree ({head}): demo.py exit {r0.returncode}')
    r = sh(f'git -C {wt} apply {os.path.abspath(sd)}/patch.diff'); assert r.returncode == 0, 'patch does not apply: ' + r.stderr
    t = sh('/venv/bin/python -m pytest -q -p no:cacheprovider --timeout=900 tests', cwd=wt)
    tail = t.stdout.strip().splitlines()[-1] if t.stdout.strip() else t.stderr[-200:]
    ran.append(f'with patch: pytest -> {tail}')
    r1 = sh(f'/venv/bin/python {sd}/demo.py', cwd=wt, env=env)
    ran.append(f'with patch: demo.py exit {r1.returncode}: {(r1.stdout.strip().splitlines() or [""])[-1][:300]}')
    ok = r0.returncode == 0 and r1.returncode != 0 and t.returncode == 0 and ' passed' in tail and 'failed' not in tail
    print(name, 'CONFIRMED' if ok else 'NOT CONFIRMED', ran)
    if ok:
        dst = os.path.join(ROOT, 'seeded', name)
        os.makedirs(dst, exist_ok=True)
        shutil.copy(f'{sd}/patch.diff', dst); shutil.copy(f'{sd}/demo.py', dst)
        meta = json.load(open(f'{sd}/meta.json'))
        out = {'breaks_property': meta.get('property'), 'summary': meta.get('summary'), 'needs_to_manifest': meta.get('needs'),
               'files': meta.get('files'), 'author': 'independent sub-agent given only the property text and a scratch worktree',
               'confirmed_by_me': ran, 'base_commit': head,
               'demo_cmd': 'PYTHONPATH=<tree> /venv/bin/python demo.py  (exit 0 PASS / exit 1 FAIL)'}
        json.dump(out, open(os.path.join(dst, 'meta.json'), 'w'), indent=1)
finally:
    sh(f'git -C /repo worktree remove --force {wt}')
