#!/bin/bash
# tools/process_seed.sh <prop> <tag> <name>: confirm the change a sub-agent left in /tmp/seedwt.<prop><tag>/_seed, keep it as
# seeded/<name>, run the property's quick check against it, remove the agent's worktree.
prop=$1; tag=$2; name=$3
wt=/tmp/seedwt.$prop$tag
cd "$(dirname "$0")/.."
if [ ! -f $wt/_seed/patch.diff ]; then echo "$name: no patch"; else
  python3 tools/keep_seed.py $wt/_seed $name
  [ -d seeded/$name ] && tools/seed.sh seeded/$name
fi
git -C /repo worktree remove --force $wt 2>/dev/null
