#!/bin/bash
# tools/rebase_seed.sh <seed_dir>: re-create patch.diff against the current /repo HEAD using patch(1) with fuzz
# (for seeds authored before a later fix: commit touched the same hunk context). Keeps the original as patch.orig.diff.
sd=$1
W=$(mktemp -d /tmp/rebase.XXXXXX); rmdir $W
git -C /repo worktree add -q --detach $W HEAD || exit 2
if patch -s -p1 --fuzz=3 -d $W < $sd/patch.diff; then
  [ -f $sd/patch.orig.diff ] || cp $sd/patch.diff $sd/patch.orig.diff
  find $W -name '*.orig' -delete
  git -C $W diff > $sd/patch.diff
  python3 - "$sd" <<'PY'
import json,sys
p=sys.argv[1]+'/meta.json'; m=json.load(open(p))
if 'rebased' not in m.get('summary',''):
    m['summary']=m.get('summary','')+' [patch rebased mechanically (patch --fuzz) by the verifier author over later fix: commits; same edit]'
json.dump(m,open(p,'w'),indent=1)
PY
  echo "rebased $sd"
else
  echo "REBASE FAILED $sd"
fi
git -C /repo worktree remove --force $W
