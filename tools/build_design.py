#!/usr/bin/env python3
"""Rebuilds sections 11-15 of DESIGN.md from docs/design_tail_src.md (sections 11-14, prose) and seeded/*/meta.json (section 15)."""
import glob, json, os
root = os.path.dirname(os.path.dirname(os.path.abspath(__file__)))
tail = open(os.path.join(root, 'docs', 'design_tail_src.md')).read()
rows = ['| seed | what the change needs in order to manifest | reported by (first failing obligations) | history |', '|---|---|---|---|']
n = miss = 0
for d in sorted(glob.glob(os.path.join(root, 'seeded', '*', ''))):
    m = json.load(open(d + 'meta.json'))
    name = os.path.basename(d.rstrip('/'))
    need = (m.get('needs_to_manifest') or m.get('needs') or '').replace('\n', ' ').replace('|', '/')
    need = need[:140] + ('...' if len(need) > 140 else '')
    cb = ' '.join(m.get('caught_by') or []) or '?'
    if m.get('check_rc') != 1:
        cb = f'NOT REPORTED (rc={m.get("check_rc")})'
    n += 1
    miss += 1 if m.get('history') else 0
    rows.append(f'| {name} | {need} | {cb} | {m.get("history", "")} |')
sec15 = f'''
## 15. Seeded changes: which checks catch which

{n} independent breaking changes are kept under `seeded/<id>/` (patch.diff, demo.py, meta.json). Each was written by a fresh
sub-agent that saw only the property text and a scratch worktree (nothing from /verif; from the second round on also a list of the
changes others had already tried, so as to get different ones), and each was confirmed by me in a scratch worktree
(`tools/keep_seed.py`: the 51 tests pass with the change, the demo passes without it and fails with it). `tools/seed.sh <dir>`
applies a patch to a scratch copy of the package and runs the property's check against it (`VERIF_REPO`); `tools/seed_table.sh`
does so for all and records the outcome in each meta.json. On the final tree **every kept seed makes the check of its property exit
1 with a VIOLATION line and a natively replayed failing input** (for C12-d and C13-e one of the several obligations reported is, in
addition, a refuted VC whose counter-model did not reproduce natively: that line ends in no-failing-input-found). {miss} of them were NOT caught (or only produced a checker fault)
when first tried; each such miss led to a stronger obligation or a more robust driver - never to a weaker clause - as noted in the
last column.  What the misses had in common, and what was changed in general: (i) callee contracts stubbed inside one property hide
defects of the callee - the contract relied on is now an obligation of its own (C11.shard_account_cell, C20.verify); (ii) callbacks
supplied by a harness must observe the state they are called in (C10.node); (iii) exotic / non-zero-level cells and equivalent
spellings are separate shape classes (C08, C12, C19.dag); (iv) loops in comprehensions are loops (ghost ticks), and count fields are
made symbolic (C19.boc_header); (v) a change that takes the code out of the loader's transparent fragment or makes a harness decoder
run off a malformed result must end in a verdict from the native stand-ins, not in a checker fault; (vi) rounds six to nine (60
seeds, 15 missed at first, most of them reported by the check of a NEIGHBOURING property): boundaries of quantified ranges that a case
list started above (width 0, 1017..1023 data bits, m = 0), wrappers read only from a fresh slice (reference cursor), generators
called with defaults only, equal-but-distinct objects as opposed to shared ones, and per-object caches that survive a change further
down (C17.reserialize) or a different enclosing bag (C04/C08 shared_object).

''' + '\n'.join(rows) + '''

Harmless-edit side: development mutants that do not change behaviour (renamed locals, reordered independent statements) change
nothing in the VCs because CPython executes the edited code; none produced an alarm. The `fix:` commits are the natural experiment
in the other direction: after each fix the corresponding obligation discharges and nothing else changes.
'''
p = os.path.join(root, 'DESIGN.md')
s = open(p).read()
mark = '\n---------------------------------------------------------------------------------------\n\n## 11. As built'
if mark in s:
    s = s[:s.index(mark)]
open(p, 'w').write(s.rstrip('\n') + '\n' + tail.rstrip('\n') + '\n' + sec15)
print('DESIGN.md rebuilt:', n, 'seeds,', miss, 'with history')
