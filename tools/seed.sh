#!/bin/bash
# tools/seed.sh <seed_dir> [prop ...] : run checks (default: the property in meta.json) against a scratch copy of /repo
# with the seeded patch applied; prints one summary line per check.  The scratch copy is removed afterwards.
sd=$1; shift
props="$@"
[ -z "$props" ] && props=$(python3 -c "import json,sys;print(json.load(open('$sd/meta.json')).get('property') or json.load(open('$sd/meta.json'))['breaks_property'])")
D=$(mktemp -d /tmp/seedrun.XXXXXX)
cp -r /repo/pytoniq_core $D/
if ! patch -s -p1 -d $D < $sd/patch.diff; then echo "PATCH DID NOT APPLY: $sd"; rm -rf $D; exit 2; fi
cd /verif
for p in $props; do
  out=$(VERIF_REPO=$D VERIF_REPLAY_DIR=$D/replays VERIF_EVIDENCE_DIR=$D/evidence ./check $p ${TIER:-quick} 2>&1)
  rc=$?
  echo "== $sd $p rc=$rc :: $(echo "$out" | grep -E "^VIOLATION|^  obligation=|UNDECIDED|CHECKER" | head -${LINES_MAX:-4} | tr '\n' '|')"
  echo "$out" | tail -1
done
rm -rf $D
