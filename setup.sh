#!/bin/bash
# Builds /verif/.venv (offline): Python 3.12 venv over /venv's site-packages (repo deps) + z3/cvc5/hypothesis/jsonschema.
# Idempotent; every check calls it first because restores bring back committed files only.
set -e
cd "$(dirname "$0")"
V=.venv
if [ -x $V/bin/python ] && $V/bin/python -c "import z3, jsonschema, hypothesis, bitarray, nacl" 2>/dev/null; then
  exit 0
fi
(
  flock 9
  if [ -x $V/bin/python ] && $V/bin/python -c "import z3, jsonschema, hypothesis, bitarray, nacl" 2>/dev/null; then exit 0; fi
  rm -rf $V
  /venv/bin/python -m venv $V
  echo "import site; site.addsitedir('/venv/lib/python3.12/site-packages')" > $V/lib/python3.12/site-packages/_base.pth
  PIP_NO_INDEX=1 $V/bin/pip install -q --no-index --find-links /opt/veriftools/wheels z3-solver cvc5 hypothesis jsonschema >/dev/null
  $V/bin/python -c "import z3, jsonschema, hypothesis, bitarray, nacl"
) 9>.venv.lock
