"""Loads the repository's modules from /repo's working tree on every run.

symbolic world (install_symbolic): model `bitarray`/`bitarray.util` in sys.modules, every pytoniq_core module is
read from disk, parsed, rewritten by R1 (f-strings -> _vf_fstr_) and, when a sidecar asks for it, R3 (ghost ticks at
loop heads), compiled and executed with shadow builtins in its globals.  Nothing is written, /repo is untouched.

native world (install_native): plain import of the package from /repo (real bitarray, real hashlib).
"""
import ast
import hashlib
import importlib.abc
import importlib.util
import os
import sys
import types

REPO = os.environ.get('VERIF_REPO', '/repo')
PKG = 'pytoniq_core'

_installed = None
TICK_LOOPS = {}      # {(module, function qualname): True}  -> R3 instrumentation of every loop head in it


class _FStr(ast.NodeTransformer):
    def visit_JoinedStr(self, node):
        self.generic_visit(node)
        args = []
        for v in node.values:
            if isinstance(v, ast.Constant):
                args.append(v)
            else:
                spec = v.format_spec
                if spec is None:
                    spec_node = ast.Constant('')
                elif isinstance(spec, ast.Call):
                    spec_node = spec        # already rewritten nested JoinedStr
                else:
                    spec_node = spec
                args.append(ast.Tuple([v.value, ast.Constant(v.conversion), spec_node], ast.Load()))
        call = ast.Call(ast.Name('_vf_fstr_', ast.Load()), args, [])
        return ast.copy_location(call, node)


class _Ticks(ast.NodeTransformer):
    """R3: ghost tick at every loop head and function entry of the functions named in TICK_LOOPS"""

    def __init__(self, modname):
        self.modname = modname
        self.stack = []

    def _qual(self):
        return '.'.join(self.stack)

    def visit_ClassDef(self, node):
        self.stack.append(node.name)
        self.generic_visit(node)
        self.stack.pop()
        return node

    def visit_FunctionDef(self, node):
        self.stack.append(node.name)
        q = self._qual()
        self.generic_visit(node)
        if (self.modname, q) in TICK_LOOPS:
            tick = ast.Expr(ast.Call(ast.Name('_vf_tick_', ast.Load()), [ast.Constant(f'{q}:call')], []))
            ast.copy_location(tick, node.body[0])
            ast.fix_missing_locations(tick)
            first = 1 if (isinstance(node.body[0], ast.Expr) and isinstance(node.body[0].value, ast.Constant)) else 0
            node.body.insert(first, tick)
        self.stack.pop()
        return node

    def _loop(self, node):
        self.generic_visit(node)
        q = self._qual()
        if (self.modname, q) in TICK_LOOPS:
            tick = ast.Expr(ast.Call(ast.Name('_vf_tick_', ast.Load()), [ast.Constant(f'{q}:loop@{node.lineno}')], []))
            ast.copy_location(tick, node)
            ast.fix_missing_locations(tick)
            node.body.insert(0, tick)
        return node

    visit_For = _loop
    visit_While = _loop

    def _comp(self, node):
        """comprehensions are loops too: the element expression e becomes (tick, e)[1]"""
        self.generic_visit(node)
        q = self._qual()
        if (self.modname, q) in TICK_LOOPS:
            tick = ast.Call(ast.Name('_vf_tick_', ast.Load()), [ast.Constant(f'{q}:loop@{node.lineno}c')], [])
            node.elt = ast.Subscript(ast.Tuple([tick, node.elt], ast.Load()), ast.Constant(1), ast.Load())
            ast.copy_location(node.elt, node)
            ast.fix_missing_locations(node.elt)
        return node

    visit_ListComp = _comp
    visit_GeneratorExp = _comp
    visit_SetComp = _comp


def _tick(key):
    from .sym import _CTX
    from . import sym
    c = sym._CTX
    if c is not None:
        c.tick(key)
    else:
        n = GLOBAL_TICKS[key] = GLOBAL_TICKS.get(key, 0) + 1
        if TICK_CAP[0] is not None and n > TICK_CAP[0]:
            raise TickCap(key)


class TickCap(BaseException):
    """native run-away guard: a ghost counter exceeded the cap a harness set (reported as a violated bound, never a hang)"""


GLOBAL_TICKS = {}
TICK_CAP = [None]


class _Finder(importlib.abc.MetaPathFinder, importlib.abc.Loader):
    def __init__(self, shadows, module_shims, rewrite):
        self.shadows, self.module_shims, self.rewrite = shadows, module_shims, rewrite

    def _path(self, fullname):
        rel = fullname.split('.')
        base = os.path.join(REPO, *rel)
        if os.path.isdir(base) and os.path.exists(os.path.join(base, '__init__.py')):
            return os.path.join(base, '__init__.py'), True
        if os.path.exists(base + '.py'):
            return base + '.py', False
        return None, False

    def find_spec(self, fullname, path, target=None):
        if fullname != PKG and not fullname.startswith(PKG + '.'):
            return None
        p, is_pkg = self._path(fullname)
        if p is None:
            return None
        spec = importlib.util.spec_from_loader(fullname, self, origin=p, is_package=is_pkg)
        if is_pkg:
            spec.submodule_search_locations = [os.path.dirname(p)]
        spec.has_location = True
        return spec

    def create_module(self, spec):
        return None

    def exec_module(self, module):
        p = module.__spec__.origin
        module.__file__ = p
        with open(p, 'r') as f:
            src = f.read()
        tree = ast.parse(src, p)
        if self.rewrite:
            tree = _FStr().visit(tree)
            if any(m == module.__name__ for (m, _) in TICK_LOOPS):
                tree = _Ticks(module.__name__).visit(tree)
            ast.fix_missing_locations(tree)
        code = compile(tree, p, 'exec')
        module.__dict__.update(self.shadows)
        module.__dict__['_vf_tick_'] = _tick
        exec(code, module.__dict__)
        for name, shim in self.module_shims.items():
            if isinstance(module.__dict__.get(name), types.ModuleType):
                module.__dict__[name] = shim


def _purge():
    for k in [k for k in sys.modules if k == PKG or k.startswith(PKG + '.')]:
        del sys.modules[k]


def install_symbolic():
    global _installed
    if _installed == 'symbolic':
        return
    if _installed is not None:
        raise RuntimeError('a process is either symbolic or native')
    from . import bits, shims
    m = types.ModuleType('bitarray')
    m.bitarray = bits.bitarray
    m.frozenbitarray = bits.frozenbitarray
    m.__version__ = 'vf-model'
    u = types.ModuleType('bitarray.util')
    u.int2ba = bits.int2ba
    u.ba2int = bits.ba2int
    u.zeros = bits.zeros
    m.util = u
    sys.modules['bitarray'] = m
    sys.modules['bitarray.util'] = u
    _purge()
    sys.meta_path.insert(0, _Finder(shims.SHADOWS, shims.MODULE_SHIMS, True))
    _installed = 'symbolic'


def install_native(ticks=False):
    """real libraries; the package is still loaded from REPO's working tree (optionally with R3 ticks only)"""
    global _installed
    if _installed == 'native':
        return
    if _installed is not None:
        raise RuntimeError('a process is either symbolic or native')
    _purge()
    ticks = ticks or bool(TICK_LOOPS)        # a harness that declared ghost counters gets them natively as well
    if ticks:
        class _Only(_Finder):
            pass
        f = _Only({}, {}, True)
        # only ticks, no f-string rewrite needed natively but harmless (vf_fstr falls back to format())
        from . import shims
        f.shadows = {'_vf_fstr_': shims.vf_fstr}
        sys.meta_path.insert(0, f)
    else:
        sys.path.insert(0, REPO)
    _installed = 'native'


def source_identity(qualnames):
    """[{qualname,file,lines,sha256}] for functions given as 'pytoniq_core.boc.cell.Cell.get_hash' etc."""
    out = []
    cache = {}
    for q in qualnames:
        parts = q.split('.')
        # find the longest module prefix
        for i in range(len(parts), 0, -1):
            rel = os.path.join(REPO, *parts[:i]) + '.py'
            if os.path.exists(rel):
                break
        else:
            out.append({'qualname': q, 'file': None, 'lines': None, 'sha256': None})
            continue
        if rel not in cache:
            with open(rel) as f:
                src = f.read()
            cache[rel] = (src, ast.parse(src))
        src, tree = cache[rel]
        node = tree
        found = True
        for name in parts[i:]:
            for ch in ast.iter_child_nodes(node):
                if isinstance(ch, (ast.FunctionDef, ast.ClassDef, ast.AsyncFunctionDef)) and ch.name == name:
                    node = ch
                    break
            else:
                found = False
                break
        if not found or node is tree:
            out.append({'qualname': q, 'file': os.path.relpath(rel, REPO), 'lines': None, 'sha256': None})
            continue
        seg = ast.get_source_segment(src, node) or ''
        out.append({'qualname': q, 'file': os.path.relpath(rel, REPO), 'lines': [node.lineno, node.end_lineno],
                    'sha256': hashlib.sha256(seg.encode()).hexdigest()})
    return out
