"""./check <Cxx> quick|thorough   |   ./check <Cxx> --replay <file>

exit 0: property held on everything explored (KNOWN-FINDING lines possible)
exit 1: VIOLATION property=<id> replay=<file> [no-failing-input-found]
exit 3: checker fault (traceback in /verif code, vacuity guard, zero obligations)
"""
import json
import multiprocessing as mp
import os
import sys
import time
import traceback
import zlib

ROOT = os.path.dirname(os.path.dirname(os.path.abspath(__file__)))
sys.path.insert(0, ROOT)

from vf import engine  # noqa: E402

NPROC = int(os.environ.get('VERIF_NPROC', '16'))


def _init_symbolic(prop):
    sys.setrecursionlimit(4000)
    from vf import loader
    engine.load_harness(prop)
    loader.install_symbolic()


def _init_native(prop):
    sys.setrecursionlimit(4000)
    from vf import loader
    engine.load_harness(prop)
    loader.install_native()


def _sym_task(args):
    oid, ci, tier = args
    try:
        return engine.run_symbolic_unit(oid, ci, tier)
    except BaseException:
        return {'oid': oid, 'case_idx': ci, 'case': engine.REGISTRY[oid].cases[ci], 'status': 'ERROR',
                'error': traceback.format_exc(), 'paths': 0, 'claims': 0, 'proved': 0, 'solver_s': 0, 'checks': 0,
                'refuted': [], 'undecided': [], 'covers': []}


def _nat_task(args):
    kind = args[0]
    try:
        if kind == 'unit':
            _, oid, ci, tier, seed = args
            return engine.run_native_unit(oid, ci, tier, seed)
        if kind == 'chain':
            _, oid, ci, n, seed = args
            return engine.run_native_chain(oid, ci, n, seed)
        if kind == 'once':
            _, oid, ci, inputs = args
            return engine.run_native_once(oid, ci, inputs, None)
        if kind == 'search':
            _, oid, ci, n, seed = args
            base = (seed * 7919 + zlib.crc32(f'{oid}/{ci}'.encode())) & 0x7fffffff
            tried = 0
            for i in range(n):
                r = engine.run_native_once(oid, ci, None, base + i)
                if r.get('skipped'):
                    continue
                tried += 1
                if not r['ok']:
                    r['tried'] = tried
                    return r
            return {'ok': True, 'tried': tried}
        if kind == 'conformance':
            from vf import conformance
            return conformance.run(args[1])
    except BaseException:
        return {'status': 'ERROR', 'error': traceback.format_exc(), 'ok': True, 'crashed': True}


def _get(async_result, timeout):
    """a native search that does not finish in time is no verdict (never a violation, never a crash of the check)"""
    try:
        return async_result.get(timeout=timeout)
    except mp.TimeoutError:
        return {'ok': True, 'tried': 0, 'timed_out': True}


def load_known():
    p = os.path.join(ROOT, 'KNOWN_FINDINGS.txt')
    out = []
    if os.path.exists(p):
        for line in open(p):
            line = line.strip()
            if line.startswith('finding:'):
                kv = dict(t.split('=', 1) for t in line.split('—')[0].split()[1:] if '=' in t)
                kv['text'] = line.split('—', 1)[1].strip() if '—' in line else ''
                out.append(kv)
    return out


def unit_name(r):
    case = r.get('case') or {}
    tag = '#history' if r.get('chain') else ''
    if not case:
        return r['oid'] + tag
    return r['oid'] + '[' + ','.join(f'{k}={v}' for k, v in case.items()) + ']' + tag


def main(argv):
    if len(argv) < 2:
        print(__doc__)
        return 3
    prop = argv[0]
    t0 = time.time()
    seed = int(os.environ.get('VERIF_SEED', '0'))
    if argv[1] == '--replay':
        return replay(prop, argv[2])
    tier = argv[1]
    os.environ['VERIF_TIER'] = tier
    engine.load_harness(prop)
    obs = [o for o in engine.REGISTRY.values() if o.prop == prop and (tier == 'thorough' or o.tier == 'quick')]
    if not obs:
        print(f'CHECKER-ERROR: no obligations registered for {prop}')
        return 3
    ctxm = mp.get_context('fork')
    sym_units = [(o.id, i, tier) for o in obs if o.kind == 'proof' for i in range(len(o.cases))]
    nat_units = [('unit', o.id, i, tier, seed) for o in obs if o.kind == 'bounded' for i in range(len(o.cases))]
    # history stand-ins: chained native executions (state carried between calls) for up to three cases of every deductive obligation
    chain_n = int(os.environ.get('VERIF_CHAIN', '12' if tier == 'quick' else '40'))
    if chain_n:
        for o in obs:
            if o.kind == 'proof':
                for i in sorted({0, len(o.cases) // 2, len(o.cases) - 1}):
                    nat_units.append(('chain', o.id, i, chain_n, seed))
    sym_results, nat_results = [], []
    fault = []

    # global budget of the deductive phase (on the unchanged tree every check needs a small fraction of it; code that makes
    # the path enumeration explode ends in UNDECIDED units and the native stand-ins decide)
    global_s = float(os.environ.get('VERIF_GLOBAL_SECONDS', '600' if tier == 'quick' else '5400'))
    os.environ['VERIF_DEADLINE'] = str(time.time() + global_s)
    spool = ctxm.Pool(NPROC, initializer=_init_symbolic, initargs=(prop,), maxtasksperchild=200) if sym_units else None
    npool = ctxm.Pool(NPROC, initializer=_init_native, initargs=(prop,))
    try:
        conf_async = npool.apply_async(_nat_task, (('conformance', seed),))
        sym_async = [(u, spool.apply_async(_sym_task, (u,))) for u in sym_units]
        nat_async = [(u, npool.apply_async(_nat_task, (u,))) for u in nat_units]
        for u, a in sym_async:
            o = engine.REGISTRY[u[0]]
            try:
                left = float(os.environ['VERIF_DEADLINE']) - time.time()
                sym_results.append(a.get(timeout=max(5, min(o.budget.get('seconds', 240), left) + 120)))
            except mp.TimeoutError:
                sym_results.append({'oid': u[0], 'case_idx': u[1], 'case': o.cases[u[1]], 'status': 'UNDECIDED',
                                    'undecided': [{'reason': 'unit wall-clock budget exhausted', 'path': []}],
                                    'refuted': [], 'paths': 0, 'claims': 0, 'proved': 0, 'solver_s': 0, 'checks': 0,
                                    'covers': []})
        # bounded stand-ins: a native run that does not finish inside the run's native budget is NO verdict (never a violation,
        # never a checker fault): code under test that loops is cut by ghost-tick caps where running time is the property (C19)
        nat_deadline = t0 + float(os.environ.get('VERIF_NATIVE_SECONDS', '900' if tier == 'quick' else '7200'))
        for u, a in nat_async:
            try:
                nat_results.append(a.get(timeout=max(5, nat_deadline - time.time())))
            except mp.TimeoutError:
                rt = {'oid': u[1], 'case_idx': u[2], 'case': engine.REGISTRY[u[1]].cases[u[2]], 'status': 'TIMEOUT',
                      'evaluations': 0, 'distinct': 0, 'skipped': 0, 'failures': [], 'covers': [], 'wall_s': 0,
                      'chain': u[0] == 'chain'}
                nat_results.append(rt)
                print(f'UNDECIDED obligation={unit_name(rt)} reason=native stand-in did not finish inside the time budget stand-in=none')
        conf = conf_async.get(timeout=600)
        triage_deadline = t0 + float(os.environ.get('VERIF_TRIAGE_SECONDS', '1500' if tier == 'quick' else '9000'))

        # the loader must be transparent for the source as it is now; if the conformance corpus behaves differently under the
        # rewritten + shadowed package than natively (code using the buffer protocol on shadowed types, say), no deductive result of
        # this run is trusted: discharged units are WITHHELD (undecided) and the native stand-ins decide.  Never a violation by itself.
        loader_bad = (not conf.get('ok', False)) and conf.get('status') != 'ERROR' and conf.get('failures') and \
            all('loader conformance' in f or 'loader corpus' in f for f in conf.get('failures'))
        if loader_bad:
            seen_ob = {}
            for r in sym_results:
                if r['status'] == 'DISCHARGED':
                    seen_ob[r['oid']] = seen_ob.get(r['oid'], 0) + 1
                    r['status'] = 'UNDECIDED'
                    r['undecided'] = [{'reason': 'loader conformance failed for the current source: deductive result withheld', 'path': []}]
                    r['withheld'] = seen_ob[r['oid']] > 2
            print('LOADER-NOT-TRANSPARENT: the rewritten package differs from the native one on the conformance corpus; deductive '
                  'results of this run are withheld, native stand-ins decide')
            conf['ok'] = True
            conf['loader_withheld'] = True

        # ---- triage of refuted / undecided symbolic units: native replay, then bounded search -------------------
        violations, known_hits, undecided_lines = [], [], []
        known = load_known()
        # native replays of first counter-models run in parallel; per obligation at most 24 refuted units are replayed / searched
        # (the others are listed as refuted; the report prefers a natively reproduced unit)
        pre, per_ob = {}, {}
        for r in sym_results:
            if r['status'] == 'REFUTED' and r['refuted']:
                per_ob[r['oid']] = per_ob.get(r['oid'], 0) + 1
                if per_ob[r['oid']] <= 24:
                    pre[(r['oid'], r['case_idx'])] = npool.apply_async(
                        _nat_task, (('once', r['oid'], r['case_idx'], r['refuted'][0].get('inputs') or {}),))
        # native stand-ins of UNDECIDED units: all started in parallel on the native pool; the triage deadline bounds the wait
        und, und_per_ob = {}, {}
        for r in sym_results:
            if r['status'] == 'UNDECIDED' and not r.get('withheld'):
                und_per_ob[r['oid']] = und_per_ob.get(r['oid'], 0) + 1
                if und_per_ob[r['oid']] <= 400:
                    o_ = engine.REGISTRY[r['oid']]
                    und[(r['oid'], r['case_idx'])] = npool.apply_async(
                        _nat_task, (('search', r['oid'], r['case_idx'], max(o_.samples, 300), seed),))
                else:
                    r['withheld'] = True
        for r in sym_results:
            o = engine.REGISTRY[r['oid']]
            if r['status'] == 'ERROR':
                fault.append((unit_name(r), r.get('error')))
                continue
            if r['status'] == 'REFUTED' and (r['oid'], r['case_idx']) not in pre:
                r['replay'] = None
                violations.append(r)
                continue
            if r['status'] == 'REFUTED':
                rep = None
                for ci_, cex in enumerate(r['refuted']):
                    inputs = cex.get('inputs') or {}
                    if ci_ == 0:
                        nr = _get(pre[(r['oid'], r['case_idx'])], 150)
                        if nr.get('timed_out'):
                            continue
                    else:
                        if time.time() > triage_deadline:
                            break
                        nr = _get(npool.apply_async(_nat_task, (('once', r['oid'], r['case_idx'], inputs),)), 150)
                        if nr.get('timed_out'):
                            continue
                    if nr.get('crashed'):
                        fault.append((unit_name(r), nr.get('error')))
                        continue
                    if not nr['ok'] and not nr.get('skipped'):
                        rep = {'how': 'solver counter-model replayed natively', 'inputs': nr['used'],
                               'failed': nr['failed'], 'trace': nr.get('trace'), 'cex': cex}
                        break
                if rep is None and time.time() < triage_deadline:
                    sr = _get(npool.apply_async(_nat_task, (('search', r['oid'], r['case_idx'],
                                                            max(o.samples, 400), seed),)), 300)
                    if not sr.get('ok', True):
                        rep = {'how': f'bounded native search ({sr.get("tried")} inputs) after the counter-model did '
                                      f'not reproduce', 'inputs': sr['used'], 'failed': sr['failed'],
                               'trace': sr.get('trace'), 'cex': r['refuted'][0]}
                r['replay'] = rep
                violations.append(r)
            elif r['status'] == 'UNDECIDED' and r.get('withheld'):
                r['standin'] = 'not searched (sibling units of the same obligation were)'
                undecided_lines.append(r)
            elif r['status'] == 'UNDECIDED':
                sr = _get(und[(r['oid'], r['case_idx'])], max(5, min(600, triage_deadline - time.time())))
                if not sr.get('ok', True):
                    r['replay'] = {'how': f'bounded native stand-in for an undecided obligation', 'inputs': sr['used'],
                                   'failed': sr['failed'], 'trace': sr.get('trace'), 'cex': None}
                    violations.append(r)
                else:
                    r['standin'] = f'passed({sr.get("tried")} native samples)'
                    undecided_lines.append(r)
        for r in nat_results:
            if r.get('status') == 'ERROR' or r.get('crashed'):
                fault.append((r.get('oid', '?'), r.get('error')))
            elif r['status'] == 'FAILED':
                f = r['failures'][0]
                r['replay'] = {'how': 'bounded native stand-in', 'inputs': f['inputs'], 'failed': f['failed'],
                               'trace': f.get('trace'), 'cex': None}
                violations.append(r)
    finally:
        if spool:
            spool.terminate()
        npool.terminate()

    if conf.get('status') == 'ERROR' or not conf.get('ok', False):
        fault.append(('model/loader conformance', conf.get('error') or json.dumps(conf.get('failures'))[:2000]))

    # ---- reporting ----------------------------------------------------------------------------------------------
    os.makedirs(os.path.join(ROOT, 'replays'), exist_ok=True)
    os.makedirs(os.environ.get('VERIF_EVIDENCE_DIR', os.path.join(ROOT, 'evidence')), exist_ok=True)
    exit_code = 0
    n_viol = 0
    replay_dir = os.environ.get('VERIF_REPLAY_DIR', os.path.join(ROOT, 'replays'))
    os.makedirs(replay_dir, exist_ok=True)
    by_ob = {}
    for r in violations:
        name = unit_name(r)
        k = match_known(known, prop, r)
        if k is not None:
            tag = (k.get('obligation'), k.get('text'))
            if tag not in [x[0] for x in known_hits]:
                print(f'KNOWN-FINDING: property={prop} obligation={k.get("obligation")} {k.get("text", "")}')
            known_hits.append((tag, name))
            continue
        by_ob.setdefault(r['oid'], []).append(r)
    known_hits = [n for _, n in known_hits]
    for oid, rs in by_ob.items():
        n_viol += 1
        rs.sort(key=lambda r: r.get('replay') is None)      # a natively reproduced unit first
        r = rs[0]
        name = unit_name(r)
        path = os.path.join(replay_dir, f'{prop}-{zlib.crc32(oid.encode()):08x}.json')
        rep = r.get('replay')
        doc = {'property': prop, 'obligation': r['oid'], 'case': r.get('case'), 'case_idx': r.get('case_idx'),
               'unit': name, 'functions_under_contract': engine.REGISTRY[r['oid']].fuc,
               'failed_claims': (rep or {}).get('failed') or [c.get('claim') for c in r.get('refuted', [])],
               'inputs': (rep or {}).get('inputs'), 'how_found': (rep or {}).get('how'),
               'native_trace': (rep or {}).get('trace'),
               'verifier_output': r.get('refuted') or r.get('undecided'),
               'reproduced_natively': rep is not None,
               'other_failing_units': [{'unit': unit_name(x), 'claims': ((x.get('replay') or {}).get('failed') or
                                        [c.get('claim') for c in x.get('refuted', [])])[:4],
                                        'reproduced_natively': x.get('replay') is not None} for x in rs[1:40]]}
        with open(path, 'w') as f:
            json.dump(doc, f, indent=1, default=str)
        shown = os.path.relpath(path, ROOT) if path.startswith(ROOT) else path
        tail = '' if rep is not None else ' no-failing-input-found'
        claims = '; '.join(str(x) for x in doc['failed_claims'][:3])
        print(f'VIOLATION property={prop} replay={shown}{tail}')
        print(f'  obligation={name} (+{len(rs) - 1} more failing units) claims: {claims}')
        exit_code = 1
    for r in undecided_lines:
        why = (r['undecided'][0]['reason'] if r.get('undecided') else '?')[:200]
        print(f'UNDECIDED obligation={unit_name(r)} reason={why} stand-in={r.get("standin")}')
    for name, err in fault:
        print(f'CHECKER-ERROR unit={name}\n{err}')
    write_evidence(prop, tier, seed, obs, sym_results, nat_results, conf, violations, known_hits, n_viol, t0)
    n_dis = sum(1 for r in sym_results if r['status'] == 'DISCHARGED')
    print(f'{prop} {tier}: {n_dis}/{len(sym_results)} deductive units discharged, '
          f'{sum(1 for r in nat_results if r["status"] == "PASSED")}/{len(nat_results)} bounded units passed, '
          f'{n_viol} violation(s), {len(known_hits)} known finding(s), {time.time() - t0:.1f}s')
    if fault:
        return 3
    return exit_code


def match_known(known, prop, r):
    name = unit_name(r)
    for k in known:
        if k.get('property') != prop:
            continue
        if k.get('obligation') == name or k.get('obligation') == r['oid']:
            want = k.get('claim')
            if want:
                rep = r.get('replay') or {}
                claims = [str(x).split(':')[0] for x in (rep.get('failed') or [])] + \
                         [c.get('claim') for c in r.get('refuted', [])]
                if want not in claims:
                    continue
            return k
    return None


def write_evidence(prop, tier, seed, obs, sym_results, nat_results, conf, violations, known_hits, n_viol, t0):
    from vf import loader
    fuc = sorted({q for o in obs for q in o.fuc})
    ident = loader.source_identity(fuc)
    n_units = len(sym_results)
    n_dis = sum(1 for r in sym_results if r['status'] == 'DISCHARGED')
    bounded = []
    for r in nat_results:
        o = engine.REGISTRY[r['oid']]
        bounded.append({'obligation': unit_name(r), 'status': r['status'], 'evaluations': r.get('evaluations', 0),
                        'distinct_inputs': r.get('distinct', 0), 'skipped_by_precondition': r.get('skipped', 0),
                        'bound': ('history stand-in of a deductive obligation: native executions chained in one process, every second one re-using a random half of the previous inputs; ' if r.get('chain') else '') + o.descr,
                        'covers': r.get('covers', [])})
    undec = [{'obligation': unit_name(r), 'reason': (r['undecided'][0]['reason'] if r.get('undecided') else '')[:300],
              'standin': r.get('standin')} for r in sym_results if r['status'] == 'UNDECIDED']
    samples = []
    for r in sym_results[:]:
        if r.get('sample_vc') and len(samples) < 4:
            samples.append({'obligation': unit_name(r), 'paths': r['paths'], 'claims': r['claims'],
                            'vc': r['sample_vc']})
    for r in violations[:3]:
        samples.append({'obligation': unit_name(r), 'status': r['status'], 'replay': (r.get('replay') or {}).get('inputs')})
    for r in nat_results[:2]:
        samples.append({'obligation': unit_name(r), 'bounded_sample_input': r.get('sample')})
    assumptions = sorted({a for o in obs for a in o.assumes} | set(BASE_ASSUMPTIONS))
    all_proved = n_units > 0 and n_dis == n_units and not any(o.kind == 'bounded' for o in obs) and n_viol == 0
    # level: proof only when every deductive unit is discharged in this run; bounded parts are listed separately
    level = 'proof' if (n_units > 0 and n_dis == n_units) else 'other'
    try:        # a property whose claimed level is `other` (deductive core + bounded parts) never reports `proof`
        man = json.load(open(os.path.join(ROOT, 'MANIFEST.json')))
        claimed = {c['property_id']: c['level_claimed']['category'] for c in man['checks']}.get(prop)
        if claimed and claimed != 'proof':
            level = 'other'
    except Exception:
        pass
    cov = {
        'obligations': n_units,
        'discharged': n_dis,
        'checker_cmd': f'./check {prop} {tier}',
        'trusted_base': TRUSTED_BASE,
        'explanation': (f'{n_dis}/{n_units} deductive units (obligation x case) discharged by z3 over all feasible '
                        f'paths of the real code; {len(bounded)} bounded stand-in units (never counted as proved); '
                        f'{len(undec)} undecided; {n_viol} violation(s); {len(known_hits)} known finding(s).'),
        'evaluations': sum(r.get('paths', 0) for r in sym_results) + sum(r.get('evaluations', 0) for r in nat_results),
        'distinct_nontrivial': sum(r.get('paths', 0) for r in sym_results) + sum(r.get('distinct', 0) for r in nat_results),
        'rule': 'deductive: one evaluation = one feasible symbolic path of the real function (distinct path conditions); '
                'bounded: one evaluation = one native run, distinct by input tuple',
        'samples': samples or [{'note': 'no sample'}],
        'paths_explored': sum(r.get('paths', 0) for r in sym_results),
        'claims_total': sum(r.get('claims', 0) for r in sym_results),
        'claims_proved': sum(r.get('proved', 0) for r in sym_results),
        'vcs_by_backend': {'z3': sum(r.get('checks', 0) for r in sym_results),
                           'cvc5': sum(sum(v for k, v in (r.get('cvc5') or {}).items() if k in ('unsat', 'sat', 'unknown', 'error')) for r in sym_results),
                           'cvc5_verdicts': {k: sum((r.get('cvc5') or {}).get(k, 0) for r in sym_results) for k in ('unsat', 'unknown', 'error', 'sat')}},
        'solver_time_s': round(sum(r.get('solver_s', 0) for r in sym_results), 2),
        'functions_under_contract': ident,
        'inlined_helpers': sorted({q for o in obs for q in o.inlined}),
        'obligation_list': [{'obligation': o.id, 'kind': o.kind, 'cases': len(o.cases), 'descr': o.descr[:300]} for o in obs],
        'units': [{'unit': unit_name(r), 'status': r['status'], 'paths': r.get('paths'), 'claims': r.get('claims'),
                   'covers': r.get('covers'), 'wall_s': round(r.get('wall_s', 0), 2)} for r in sym_results],
        'undecided': undec,
        'bounded': bounded,
        'known_findings_hit': known_hits,
        'conformance': {k: v for k, v in conf.items() if k != 'failures'},
        'all_parts_proved': all_proved,
    }
    ev = {'property_id': prop, 'tier': tier, 'seed': seed, 'level': level, 'coverage': cov,
          'assumptions': assumptions, 'wall_s': round(time.time() - t0, 2), 'violations': n_viol}
    p = os.path.join(os.environ.get('VERIF_EVIDENCE_DIR', os.path.join(ROOT, 'evidence')), f'{prop}.json')
    with open(p, 'w') as f:
        json.dump(ev, f, indent=1, default=str)
    try:
        import jsonschema
        schema = json.load(open('/root/.vp/EVIDENCE.schema.json'))
        jsonschema.validate(json.load(open(p)), schema)
    except FileNotFoundError:
        pass


TRUSTED_BASE = [
    'CPython 3.12 executing the repository code (evaluation order observed, not modelled)',
    'z3 4.x/5.x (Python API) as the deciding back end',
    '/verif/vf: proxies (SymInt/SymBool), segment-list model of bitarray/bytes, path explorer, loader '
    '(validated each run by model+loader conformance against the real libraries; not proved)',
    'T1 bitarray model (int2ba/ba2int/extend/frombytes/tobytes/fill/slicing) written from the library documentation',
    'T2 int.to_bytes/from_bytes, bytes.hex/fromhex, UTF-8 encode/decode as inverse pairs',
    'T3 hashlib digests as uninterpreted deterministic functions of their input',
]
BASE_ASSUMPTIONS = [
    'Python integers are mathematical integers (exact encoding, no overflow caveat)',
    'loader rewrites R1 (f-strings -> __vf_fstr) and shadow builtins (len,range,int,bytes,str,bool,bin,min,max) are '
    'semantics-preserving on concrete values (checked by loader conformance on the repo test vectors)',
]


def replay(prop, path):
    engine.load_harness(prop)
    doc = json.load(open(path if os.path.isabs(path) else os.path.join(ROOT, path)))
    from vf import loader
    loader.install_native()
    r = engine.run_native_once(doc['obligation'], doc['case_idx'], doc.get('inputs') or {}, None)
    print(json.dumps({'obligation': doc['unit'], 'ok': r['ok'], 'failed': r['failed'], 'inputs': r['used']}, default=str)[:4000])
    if r.get('trace'):
        print(r['trace'])
    if not r['ok']:
        print(f'VIOLATION property={prop} replay={path}')
        return 1
    print('replay: property held on this input')
    return 0


if __name__ == '__main__':
    try:
        sys.exit(main(sys.argv[1:]))
    except SystemExit:
        raise
    except BaseException:
        traceback.print_exc()
        print('CHECKER-ERROR: traceback in the checker')
        sys.exit(3)
