"""Verification-condition generation from the AST for straight-line integer code (used for the CRC loop bodies):
Python ints are mathematical; they are encoded as bit-vectors of width W with *no-overflow side conditions* (every
intermediate value must be provably < 2^(W-1)), so the encoding is exact on the proved range.
Supported: Name, int Constant, BinOp << >> ^ & | + -, table[index] (table = list of int constants extracted from the
AST), Assign / AugAssign to a Name."""
import ast
import z3

W = 64


class NotInFragment(Exception):
    pass


class BVEval:
    def __init__(self, env, tables):
        self.env = dict(env)          # name -> BitVec
        self.tables = tables          # name -> list[int]
        self.side = []                # side conditions (no overflow, index in range)
        self.lookups = []             # (table name, index term, result term)

    def expr(self, n):
        if isinstance(n, ast.Constant) and type(n.value) is int:
            if not 0 <= n.value < (1 << (W - 1)):
                raise NotInFragment('constant out of range')
            return z3.BitVecVal(n.value, W)
        if isinstance(n, ast.Name):
            if n.id not in self.env:
                raise NotInFragment(f'unknown name {n.id}')
            return self.env[n.id]
        if isinstance(n, ast.BinOp):
            a, b = self.expr(n.left), self.expr(n.right)
            op = type(n.op)
            if op is ast.LShift:
                r = a << b
                # exactness: shifting must not lose bits (a < 2^(W-1-b))
                self.side.append(('no-overflow-lshift', z3.LShR(r, b) == a))
                self.side.append(('shift-amount', z3.ULT(b, W)))
                return r
            if op is ast.RShift:
                self.side.append(('shift-amount', z3.ULT(b, W)))
                return z3.LShR(a, b)
            if op is ast.BitXor:
                return a ^ b
            if op is ast.BitAnd:
                return a & b
            if op is ast.BitOr:
                return a | b
            if op is ast.Add:
                r = a + b
                self.side.append(('no-overflow-add', z3.And(z3.UGE(r, a), z3.Extract(W - 1, W - 1, r) == 0)))
                return r
            raise NotInFragment(f'operator {op.__name__}')
        if isinstance(n, ast.Subscript) and isinstance(n.value, ast.Name) and n.value.id in self.tables:
            idx = self.expr(n.slice)
            t = self.tables[n.value.id]
            self.side.append(('index-in-range', z3.ULT(idx, len(t))))
            res = z3.BitVec(f'{n.value.id}@{len(self.lookups)}', W)
            self.lookups.append((n.value.id, idx, res))
            return res
        raise NotInFragment(ast.dump(n)[:80])

    def stmt(self, s):
        if isinstance(s, ast.Assign) and len(s.targets) == 1 and isinstance(s.targets[0], ast.Name):
            self.env[s.targets[0].id] = self.expr(s.value)
        elif isinstance(s, ast.AugAssign) and isinstance(s.target, ast.Name):
            self.env[s.target.id] = self.expr(ast.BinOp(ast.Name(s.target.id, ast.Load()), s.op, s.value))
        else:
            raise NotInFragment(ast.dump(s)[:80])


def extract_crc_function(src, fname):
    """mechanical extraction from the real source: returns dict(tables, init_stmts, loop, ret, params).
    What is dropped: comments, type annotations.  Shape requirements are checked and reported."""
    tree = ast.parse(src)
    fn = next(n for n in ast.walk(tree) if isinstance(n, ast.FunctionDef) and n.name == fname)
    tables, inits, loop, ret = {}, [], None, None
    for s in fn.body:
        if isinstance(s, ast.Expr) and isinstance(s.value, ast.Constant):
            continue
        if isinstance(s, ast.Assign) and isinstance(s.value, ast.List):
            vals = []
            for e in s.value.elts:
                if not (isinstance(e, ast.Constant) and type(e.value) is int):
                    raise NotInFragment('table element is not an int literal')
                vals.append(e.value)
            tables[s.targets[0].id] = vals
        elif isinstance(s, (ast.Assign, ast.AugAssign)) and loop is None:
            inits.append(s)
        elif isinstance(s, ast.For):
            if loop is not None:
                raise NotInFragment('more than one loop')
            loop = s
        elif isinstance(s, ast.Return):
            ret = s
        else:
            raise NotInFragment(f'unexpected statement {type(s).__name__}')
    if loop is None or ret is None:
        raise NotInFragment('no loop / return')
    params = [a.arg for a in fn.args.args]
    if not (isinstance(loop.iter, ast.Name) and loop.iter.id == params[0] and isinstance(loop.target, ast.Name)
            and not loop.orelse):
        raise NotInFragment('loop is not `for <name> in <first parameter>`')
    for n in ast.walk(loop):
        if isinstance(n, (ast.Break, ast.Continue, ast.Return)):
            raise NotInFragment('loop has break/continue/return')
    return {'tables': tables, 'inits': inits, 'loop': loop, 'ret': ret, 'params': params, 'fn': fn,
            'lines': (fn.lineno, fn.end_lineno)}
