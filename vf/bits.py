"""Model of the `bitarray` C extension type (and of bytes values) over symbolic contents.

A bit string is an ordered list of segments:
  Val(w, v)        w concrete width (bits), v python int or z3 Int term with 0 <= v < 2**w   (big-endian value)
  Opq(buf, a, d)   the window [a, n-d) of an opaque Buffer whose total length n is symbolic; a, d concrete.
Reads at concrete offsets from either end of an opaque buffer are exact: the buffer keeps elementary atoms between
concrete cut points and emits the refinement constraint  atom[a,b) = atom[a,c)*2^(b-c) + atom[c,b)  when a cut is
added, so overlapping reads of different widths stay consistent (needed by preload-then-load sequences).
Everything else raises Unsupported (-> UNDECIDED, never a verdict).

The same classes run on purely concrete values (python ints), which is how the model is conformance-tested against
the real bitarray on every run.
"""
import bisect
import z3
from .sym import (Unsupported, ctx, SymInt, SymBool, wrap_int, mk_int, mk_bool, sym_and, to_z3_bool, _z)


def _is_c(x):
    return type(x) is int or type(x) is bool


class Val:
    __slots__ = ('w', 'v')

    def __init__(self, w, v):
        assert isinstance(w, int) and w > 0, w
        if type(v) is SymInt:
            v = v.e
        if not isinstance(v, int) and z3.is_int_value(v):
            v = v.as_long()
        self.w = w
        self.v = v

    def __repr__(self):
        return f'Val({self.w},{self.v if _is_c(self.v) else "~"})'

    def split(self, k):
        """(first k bits, remaining w-k bits)"""
        assert 0 < k < self.w
        r = self.w - k
        if _is_c(self.v):
            return Val(k, self.v >> r), Val(r, self.v & ((1 << r) - 1))
        return Val(k, z3.simplify(self.v / (1 << r))), Val(r, z3.simplify(self.v % (1 << r)))


class Buffer:
    """Opaque bit buffer of (possibly symbolic) length n; reads at concrete offsets from the front or the back."""

    def __init__(self, name, nbits):
        self.name = name
        if type(nbits) is SymInt:
            nbits = nbits.e
        self.n = nbits
        self.fc = [0]
        self.fa = {}
        self.bc = [0]
        self.ba = {}

    def concrete_len(self):
        return _is_c(self.n)

    def _atoms(self, cuts, atoms, lo, hi, tag):
        c = ctx()
        if hi > cuts[-1]:
            a = cuts[-1]
            cuts.append(hi)
            atoms[(a, hi)] = self._new(tag, a, hi)
        for p in (lo, hi):
            i = bisect.bisect_left(cuts, p)
            if cuts[i] != p:
                a, b = cuts[i - 1], cuts[i]
                old = atoms.pop((a, b))
                cuts.insert(i, p)
                if tag == 'f':
                    hi_part = self._new(tag, a, p)
                    lo_part = self._new(tag, p, b)
                    atoms[(a, p)] = hi_part
                    atoms[(p, b)] = lo_part
                    c.add(old == hi_part * (1 << (b - p)) + lo_part)
                else:   # back coords: [a,b) are distances from the end; the piece nearer the end is less significant
                    lo_part = self._new(tag, a, p)
                    hi_part = self._new(tag, p, b)
                    atoms[(a, p)] = lo_part
                    atoms[(p, b)] = hi_part
                    c.add(old == hi_part * (1 << (p - a)) + lo_part)
        i = bisect.bisect_left(cuts, lo)
        j = bisect.bisect_left(cuts, hi)
        return [(cuts[t], cuts[t + 1]) for t in range(i, j)]

    def _new(self, tag, a, b):
        v = z3.Int(f'{self.name}.{tag}[{a}:{b}]')
        ctx().add(z3.And(v >= 0, v < (1 << (b - a))))
        return v

    def read_front(self, off, k):
        """value of bits [off, off+k); the caller has established off+k <= n"""
        if k == 0:
            return 0
        self._keep_disjoint(front=off + k)
        pieces = self._atoms(self.fc, self.fa, off, off + k, 'f')
        terms = []
        for (a, b) in pieces:
            sh = off + k - b
            terms.append(self.fa[(a, b)] * (1 << sh) if sh else self.fa[(a, b)])
        return z3.simplify(z3.Sum(terms)) if len(terms) > 1 else terms[0]

    def read_back(self, dist, k):
        """value of bits [n-dist, n-dist+k), dist >= k; caller has established dist <= n"""
        if k == 0:
            return 0
        if _is_c(self.n):
            return self.read_front(self.n - dist, k)
        self._keep_disjoint(back=dist)
        if _is_c(self.n):
            return self.read_front(self.n - dist, k)
        lo, hi = dist - k, dist
        pieces = self._atoms(self.bc, self.ba, lo, hi, 'b')
        terms = []
        for (a, b) in pieces:
            sh = a - lo
            terms.append(self.ba[(a, b)] * (1 << sh) if sh else self.ba[(a, b)])
        return z3.simplify(z3.Sum(terms)) if len(terms) > 1 else terms[0]

    def _keep_disjoint(self, front=0, back=0):
        """front and back coordinate systems may only coexist while provably disjoint; otherwise the length is
        concretised (finite: it is below front_max+back_max on that side) and back atoms are tied to front reads."""
        if _is_c(self.n):
            return
        fm = max(self.fc[-1], front)
        bm = max(self.bc[-1], back)
        if bm == 0 or fm == 0:
            return
        c = ctx()
        if c.branch(self.n >= fm + bm):
            return
        self.fix_length()

    def fix_length(self):
        """fork over the feasible values of the length (finite at the call sites) and tie back atoms to front reads"""
        if _is_c(self.n):
            return
        c = ctx()
        n = c.concretise(self.n, f'length of {self.name}')
        self.n = n
        back = list(self.ba.items())
        self.ba = {}
        self.bc = [0]
        for (a, b), atom in back:
            c.add(atom == _z(self.read_front(n - b, b - a)))


class Opq:
    __slots__ = ('buf', 'a', 'd')

    def __init__(self, buf, a=0, d=0):
        self.buf, self.a, self.d = buf, a, d

    @property
    def w(self):
        n = self.buf.n
        return n - self.a - self.d

    def __repr__(self):
        return f'Opq({self.buf.name},{self.a},{self.d})'


def _norm(segs):
    """drop empty pieces, turn opaque windows of (now) concrete width into Vals"""
    out = []
    for s in segs:
        if isinstance(s, Opq) and s.buf.concrete_len():
            w = s.buf.n - s.a - s.d
            if w < 0:
                raise Unsupported('negative opaque window')
            if w:
                out.append(Val(w, s.buf.read_front(s.a, w)))
        else:
            out.append(s)
    return out


class Seq:
    """immutable bit sequence"""
    __slots__ = ('segs', '_len')

    def __init__(self, segs=()):
        self.segs = tuple(_norm(segs))
        self._len = None

    @staticmethod
    def from_int(v, w):
        return Seq([Val(w, v)]) if w else Seq()

    @staticmethod
    def from_01(s):
        if not s:
            return Seq()
        return Seq([Val(len(s), int(s, 2))])

    @staticmethod
    def from_bytes(b):
        if not b:
            return Seq()
        return Seq([Val(8 * len(b), int.from_bytes(b, 'big'))])

    def length(self):
        """python int or z3 term"""
        if self._len is not None and (_is_c(self._len) or not any(isinstance(s, Opq) and s.buf.concrete_len() for s in self.segs)):
            return self._len
        t = 0
        sym = []
        for s in self.segs:
            w = s.w
            if _is_c(w):
                t += w
            else:
                sym.append(w)
        if sym:
            t = z3.simplify(z3.Sum(sym) + t) if len(sym) > 1 or t else sym[0]
            if z3.is_int_value(t):
                t = t.as_long()
        self._len = t
        return t

    def concrete_len(self):
        return all(isinstance(s, Val) for s in _norm(self.segs))

    def fix_lengths(self):
        """concretise the length of every opaque part (forks; Unsupported when the domain is not small)"""
        for s in self.segs:
            if isinstance(s, Opq):
                s.buf.fix_length()

    def is_concrete(self):
        return all(isinstance(s, Val) and _is_c(s.v) for s in self.segs)

    def __add__(self, o):
        return Seq(self.segs + o.segs)

    # -- peeling -------------------------------------------------------------------------------------------------
    def take_front(self, k):
        """(first k bits, rest); the caller has established length >= k"""
        if k == 0:
            return Seq(), self
        got, rest, need = [], list(_norm(self.segs)), k
        while need:
            if not rest:
                raise Unsupported('take_front beyond the sequence (caller did not establish the length)')
            s = rest.pop(0)
            if isinstance(s, Val):
                if s.w <= need:
                    got.append(s)
                    need -= s.w
                else:
                    a, b = s.split(need)
                    got.append(a)
                    rest.insert(0, b)
                    need = 0
            else:
                c = ctx()
                if s.buf.concrete_len():
                    rest = _norm([s]) + rest
                    continue
                if c.branch(s.w >= need):
                    got.append(Val(need, s.buf.read_front(s.a, need)))
                    rest.insert(0, Opq(s.buf, s.a + need, s.d))
                    need = 0
                else:
                    s.buf.fix_length()
                    rest = _norm([s]) + rest
        return Seq(got), Seq(rest)

    def take_back(self, k):
        """(front part, last k bits)"""
        if k == 0:
            return self, Seq()
        got, rest, need = [], list(_norm(self.segs)), k
        while need:
            if not rest:
                raise Unsupported('take_back beyond the sequence')
            s = rest.pop()
            if isinstance(s, Val):
                if s.w <= need:
                    got.insert(0, s)
                    need -= s.w
                else:
                    a, b = s.split(s.w - need)
                    got.insert(0, b)
                    rest.append(a)
                    need = 0
            else:
                c = ctx()
                if s.buf.concrete_len():
                    rest = rest + _norm([s])
                    continue
                if c.branch(s.w >= need):
                    got.insert(0, Val(need, s.buf.read_back(s.d + need, need)))
                    rest.append(Opq(s.buf, s.a, s.d + need))
                    need = 0
                else:
                    s.buf.fix_length()
                    rest = rest + _norm([s])
        return Seq(rest), Seq(got)

    def locate(self, pos):
        """pos: bit position (int or z3 term).  Returns (k, d): the position lies d (concrete) bits into segment k
        (k == len(segs) and d == 0 for the end).  Symbolic positions must provably coincide with `segment start + d`."""
        segs = _norm(self.segs)
        c = None
        off = 0
        for k, sg in enumerate(segs + [None]):
            diff = pos - off if _is_c(pos) and _is_c(off) else z3.simplify(_z(pos) - _z(off))
            if not _is_c(diff) and z3.is_int_value(diff):
                diff = diff.as_long()
            if not _is_c(diff):
                # ask the solver: is the difference a fixed non-negative number on this path?
                c = c or ctx()
                if c._check() == z3.sat:
                    dv = c.solver.model().eval(diff, model_completion=True)
                    if z3.is_int_value(dv) and c.valid(diff == dv.as_long()):
                        diff = dv.as_long()
            if _is_c(diff) and diff >= 0:
                if sg is None:
                    if diff == 0:
                        return k, 0
                elif isinstance(sg, Val):
                    if diff < sg.w:
                        return k, diff
                else:
                    if diff == 0:
                        return k, 0
                    w_ = sg.w
                    if _is_c(w_):
                        if diff < w_:
                            return k, diff
                    else:
                        c = c or ctx()
                        if c.valid(_z(w_) > diff):
                            return k, diff
            if sg is not None:
                off = off + sg.w if _is_c(off) and _is_c(sg.w) else z3.simplify(_z(off) + _z(sg.w))
        raise Unsupported('symbolic position does not provably fall on a known offset of the byte string')

    def cut(self, pos):
        """(prefix, suffix) at a bit position that may be symbolic (see locate)"""
        if _is_c(pos) and self.concrete_len():
            return self.take_front(pos)
        k, d = self.locate(pos)
        segs = _norm(self.segs)
        left, right = list(segs[:k]), list(segs[k:])
        if d:
            sg = right.pop(0)
            if isinstance(sg, Val):
                a, b = sg.split(d)
                left.append(a)
                right.insert(0, b)
            else:
                left.append(Val(d, sg.buf.read_front(sg.a, d)))
                right.insert(0, Opq(sg.buf, sg.a + d, sg.d))
        return Seq(left), Seq(right)

    def value(self):
        """unsigned big-endian value; requires concrete total width"""
        segs = _norm(self.segs)
        t = 0
        sh = 0
        conc = True
        for s in reversed(segs):
            if not isinstance(s, Val):
                raise Unsupported('value of a sequence with a symbolic-width part')
            if _is_c(s.v) and conc:
                t = t + (s.v << sh)
            else:
                conc = False
                t = _z(t) + _z(s.v) * (1 << sh)
            sh += s.w
        return t if conc else z3.simplify(t)

    def bits_list(self):
        """list of single bits (ints or z3 terms); concrete width only"""
        out = []
        for s in _norm(self.segs):
            if not isinstance(s, Val):
                raise Unsupported('iteration over symbolic-width bits')
            if _is_c(s.v):
                out.extend((s.v >> (s.w - 1 - i)) & 1 for i in range(s.w))
            else:
                out.extend(z3.simplify((s.v / (1 << (s.w - 1 - i))) % 2) for i in range(s.w))
        return out


def seq_eq(x: Seq, y: Seq):
    """python bool or z3 Bool term: the two sequences denote the same bit string"""
    lx, ly = x.length(), y.length()
    if _is_c(lx) and _is_c(ly) and lx != ly:
        return False
    conj = []
    if not (_is_c(lx) and _is_c(ly)):
        leq = z3.simplify(_z(lx) == _z(ly))
        if z3.is_false(leq):
            return False
        if not z3.is_true(leq):
            conj.append(leq)
    a, b = list(_norm(x.segs)), list(_norm(y.segs))
    c = ctx() if (conj or not (x.is_concrete() and y.is_concrete())) else None
    while a and b:
        s, t = a[0], b[0]
        if isinstance(s, Val) and isinstance(t, Val):
            if s.w == t.w:
                a.pop(0), b.pop(0)
                e = (s.v == t.v) if (_is_c(s.v) and _is_c(t.v)) else z3.simplify(_z(s.v) == _z(t.v))
            elif s.w < t.w:
                t1, t2 = t.split(s.w)
                a.pop(0)
                b[0] = t2
                e = (s.v == t1.v) if (_is_c(s.v) and _is_c(t1.v)) else z3.simplify(_z(s.v) == _z(t1.v))
            else:
                s1, s2 = s.split(t.w)
                b.pop(0)
                a[0] = s2
                e = (s1.v == t.v) if (_is_c(s1.v) and _is_c(t.v)) else z3.simplify(_z(s1.v) == _z(t.v))
            if e is False or (not isinstance(e, bool) and z3.is_false(e)):
                return False
            if not (e is True or z3.is_true(e)):
                conj.append(e)
        elif isinstance(s, Opq) and isinstance(t, Opq):
            if s.buf is not t.buf or s.a != t.a:
                if s.buf is t.buf and s.a < t.a:
                    # peel the difference from s
                    k = t.a - s.a
                    a[0:1] = [Val(k, s.buf.read_front(s.a, k)), Opq(s.buf, t.a, s.d)]
                    continue
                if s.buf is t.buf and s.a > t.a:
                    k = s.a - t.a
                    b[0:1] = [Val(k, t.buf.read_front(t.a, k)), Opq(t.buf, s.a, t.d)]
                    continue
                raise Unsupported('comparison of windows of different opaque buffers')
            if s.d == t.d:
                a.pop(0), b.pop(0)
            elif s.d < t.d:
                k = t.d - s.d
                a[0:1] = [Opq(s.buf, s.a, t.d), Val(k, s.buf.read_back(t.d, k))]
            else:
                k = s.d - t.d
                b[0:1] = [Opq(t.buf, t.a, s.d), Val(k, t.buf.read_back(s.d, k))]
        else:
            # opaque window against a value: peel from the window if its width is known to suffice
            if isinstance(s, Opq) and c.valid(_z(s.w) == 0):
                a.pop(0)            # an empty window (its length is 0 on this path)
                continue
            if isinstance(t, Opq) and c.valid(_z(t.w) == 0):
                b.pop(0)
                continue
            if isinstance(s, Opq):
                if not c.valid(s.w >= t.w):
                    raise Unsupported('comparison of an opaque window with a value of unrelated width')
                a[0:1] = [Val(t.w, s.buf.read_front(s.a, t.w)), Opq(s.buf, s.a + t.w, s.d)]
            else:
                if not c.valid(t.w >= s.w):
                    raise Unsupported('comparison of an opaque window with a value of unrelated width')
                b[0:1] = [Val(s.w, t.buf.read_front(t.a, s.w)), Opq(t.buf, t.a + s.w, t.d)]
    for rest in (a, b):
        for s in rest:
            if isinstance(s, Val):
                return False if not conj else z3.BoolVal(False)
            conj.append(z3.simplify(_z(s.w) == 0))
    if not conj:
        return True
    r = z3.simplify(z3.And(*conj)) if len(conj) > 1 else conj[0]
    if z3.is_true(r):
        return True
    if z3.is_false(r):
        return False
    return r


# ====================================================================================================================
# bytes model
# ====================================================================================================================

def to_seq_bytes(x):
    if isinstance(x, SymBytes):
        return x.seq
    if isinstance(x, (bytes, bytearray, memoryview)):
        return Seq.from_bytes(bytes(x))
    if type(x).__name__ == 'VByteArray':
        return to_seq_bytes(x.v)
    return None


class SymBytes:
    """bytes value with symbolic content (widths are multiples of 8)"""
    __slots__ = ('seq',)

    def __init__(self, segs=()):
        self.seq = segs if isinstance(segs, Seq) else Seq(segs)

    @property
    def __class__(self):
        return bytes

    @staticmethod
    def make(seq):
        """python bytes when fully concrete, SymBytes otherwise"""
        if seq.is_concrete():
            n = seq.length()
            return seq.value().to_bytes(n // 8, 'big') if n else b''
        return SymBytes(seq)

    def __vf_len__(self):
        n = self.seq.length()
        if _is_c(n):
            return n // 8
        return mk_int(n / 8)

    def __len__(self):
        n = self.seq.length()
        if _is_c(n):
            return n // 8
        raise Unsupported('builtin len() of symbolic-length bytes')

    def __bool__(self):
        n = self.seq.length()
        if _is_c(n):
            return n != 0
        return ctx().branch(n != 0)

    def __hash__(self):
        raise Unsupported('hash of symbolic bytes')

    def __add__(self, o):
        s = to_seq_bytes(o)
        if s is None:
            return NotImplemented
        return SymBytes.make(self.seq + s)

    def __radd__(self, o):
        s = to_seq_bytes(o)
        if s is None:
            return NotImplemented
        return SymBytes.make(s + self.seq)

    def __mul__(self, n):
        raise Unsupported('bytes * n on symbolic bytes')

    def __eq__(self, o):
        s = to_seq_bytes(o)
        if s is None:
            return False
        return mk_bool(seq_eq(self.seq, s))

    def __ne__(self, o):
        s = to_seq_bytes(o)
        if s is None:
            return True
        e = seq_eq(self.seq, s)
        if isinstance(e, bool):
            return not e
        return mk_bool(z3.Not(e))

    def _order(self, o, op):
        """lexicographic order of byte strings of EQUAL concrete length = order of their big-endian values"""
        s = to_seq_bytes(o)
        if s is None:
            return NotImplemented
        la, lb = self.seq.length(), s.length()
        if not (_is_c(la) and _is_c(lb)) or la != lb:
            raise Unsupported('ordering of symbolic bytes of different or symbolic lengths')
        if la == 0:
            return op in ('<=', '>=')
        a, b = self.seq.value(), s.value()
        if _is_c(a) and _is_c(b):
            return {'<': a < b, '<=': a <= b, '>': a > b, '>=': a >= b}[op]
        a = z3.IntVal(a) if _is_c(a) else a
        b = z3.IntVal(b) if _is_c(b) else b
        return mk_bool({'<': a < b, '<=': a <= b, '>': a > b, '>=': a >= b}[op])

    def __lt__(self, o):
        return self._order(o, '<')

    def __le__(self, o):
        return self._order(o, '<=')

    def __gt__(self, o):
        return self._order(o, '>')

    def __ge__(self, o):
        return self._order(o, '>=')

    def _idx(self, i, n):
        if type(i) is SymInt:
            i = ctx().concretise(i.e, 'bytes index')
        return i

    def __getitem__(self, item):
        c = ctx()
        n = self.seq.length()
        if isinstance(item, slice):
            if item.step is not None:
                if item.step == -1 and item.start is None and item.stop is None:
                    return self.reversed_bytes()
                raise Unsupported('bytes slice with step')
            start, stop = item.start, item.stop
            if (type(start) is SymInt or type(stop) is SymInt):
                return self._sym_slice(0 if start is None else start, stop)
            start = 0 if start is None else self._idx(start, n)
            if stop is not None:
                stop = self._idx(stop, n)
            if start < 0 or (stop is not None and stop < 0):
                if not _is_c(n):
                    raise Unsupported('negative slice bound on symbolic-length bytes')
                nb = n // 8
                start = max(0, nb + start) if start < 0 else start
                if stop is not None and stop < 0:
                    stop = max(0, nb + stop)
            # clamp against the (possibly symbolic) length, python semantics
            rest = self.seq
            if start:
                if not c.branch(_z(n) >= 8 * start):
                    return b''
                _, rest = rest.take_front(8 * start)
            if stop is None:
                return SymBytes.make(rest)
            want = stop - start
            if want <= 0:
                return b''
            if c.branch(_z(n) >= 8 * stop):
                got, _ = rest.take_front(8 * want)
                return SymBytes.make(got)
            return SymBytes.make(rest)      # short slice
        i = self._idx(item, n)
        if i < 0:
            if not c.branch(_z(n) >= 8 * (-i)):
                raise IndexError('index out of range')
            front, back = self.seq.take_back(8 * (-i))
            b, _ = back.take_front(8)
            return mk_int(_z(b.value()))
        if not c.branch(_z(n) >= 8 * (i + 1)):
            raise IndexError('index out of range')
        got, _ = self.seq.take_front(8 * (i + 1))
        _, b = got.take_back(8)
        return mk_int(_z(b.value()))

    def _sym_slice(self, start, stop):
        """slice with symbolic bounds (python clamping semantics; bounds must fall on known offsets)"""
        c = ctx()
        n = _z(self.seq.length())
        st = _z(wrap_int(start))
        if c.branch(st < 0):
            raise Unsupported('negative symbolic slice start')
        if c.branch(st * 8 > n):
            return b''
        _, rest = self.seq.cut(z3.simplify(st * 8) if not _is_c(wrap_int(start)) else wrap_int(start) * 8)
        if stop is None:
            return SymBytes.make(rest)
        sp = _z(wrap_int(stop))
        if c.branch(sp < 0):
            raise Unsupported('negative symbolic slice stop')
        if c.branch(sp <= st):
            return b''
        if c.branch(sp * 8 >= n):
            return SymBytes.make(rest)
        want = z3.simplify((sp - st) * 8)
        if z3.is_int_value(want):
            want = want.as_long()
        got, _ = rest.cut(want)
        return SymBytes.make(got)

    def __iter__(self):
        n = self.seq.length()
        if not _is_c(n):
            raise Unsupported('iteration over symbolic-length bytes')
        rest = self.seq
        out = []
        for _ in range(n // 8):
            b, rest = rest.take_front(8)
            out.append(mk_int(_z(b.value())))
        return iter(out)

    def reversed_bytes(self):
        n = self.seq.length()
        if not _is_c(n):
            raise Unsupported('byte reversal of symbolic-length bytes')
        rest = self.seq
        parts = []
        for _ in range(n // 8):
            b, rest = rest.take_front(8)
            parts.insert(0, b)
        segs = []
        for p in parts:
            segs.extend(p.segs)
        return SymBytes.make(Seq(segs))

    def hex(self):
        from .shims import SymHex
        return SymHex(self)

    def decode(self, *a, **k):
        from .shims import SymText
        return SymText(self)

    def __repr__(self):
        return f'SymBytes({list(self.seq.segs)})'

    def __str__(self):
        raise Unsupported('str() of symbolic bytes')

    def __format__(self, spec):
        return '<symbytes>'

    def startswith(self, p):
        p = bytes(p)
        return self[:len(p)] == p


# ====================================================================================================================
# bitarray model
# ====================================================================================================================

class Sym01:
    """result of bitarray.to01() on symbolic contents of concrete width"""
    __slots__ = ('seq',)

    def __init__(self, seq):
        self.seq = seq

    @property
    def __class__(self):
        return str

    def __eq__(self, o):
        if type(o) is Sym01:
            return mk_bool(seq_eq(self.seq, o.seq))
        if isinstance(o, str):
            if len(o) != self.seq.length():
                return False
            if any(ch not in '01' for ch in o):
                return False
            return mk_bool(seq_eq(self.seq, Seq.from_01(o)))
        if isinstance(o, Sym01):
            return mk_bool(seq_eq(self.seq, o.seq))
        return False

    def __ne__(self, o):
        e = self.__eq__(o)
        if isinstance(e, bool):
            return not e
        return mk_bool(z3.Not(e.e))

    def __hash__(self):
        raise Unsupported('symbolic bit text used as a dictionary key')

    def __getitem__(self, item):
        n = self.seq.length()
        if isinstance(item, slice) and item.step is None:
            start, stop, _ = item.indices(n)
            if stop <= start:
                return ''
            got, _ = self.seq.take_front(stop)
            _, got = got.take_front(start)
            return Sym01(got) if not got.is_concrete() else format(got.value(), f'0{stop - start}b')
        if isinstance(item, int):
            if not -n <= item < n:
                raise IndexError('string index out of range')
            item %= n
            got, _ = self.seq.take_front(item + 1)
            _, b = got.take_back(1)
            return Sym01(b) if not b.is_concrete() else str(b.value())
        raise Unsupported('indexing symbolic bit text')

    def __iter__(self):
        return iter([self[i] for i in range(self.seq.length())])

    def __add__(self, o):
        if isinstance(o, Sym01):
            return Sym01(self.seq + o.seq)
        if isinstance(o, str) and all(ch in '01' for ch in o):
            return Sym01(self.seq + Seq.from_01(o))
        raise Unsupported('concatenation of symbolic bit text with other text')

    def __radd__(self, o):
        if isinstance(o, str) and all(ch in '01' for ch in o):
            return Sym01(Seq.from_01(o) + self.seq)
        raise Unsupported('concatenation of symbolic bit text with other text')

    def find(self, sub, *a):
        if sub in ('0', '1') and not a and self.seq.length():
            # position of the first occurrence: only "is the first character `sub`" is decidable without a fork per position
            first = self[0]
            if isinstance(first, str):
                if first == sub:
                    return 0
                raise Unsupported('find() beyond the first character of symbolic bit text')
            if ctx().branch(to_z3_bool(first == sub)):
                return 0
            raise Unsupported('find() beyond the first character of symbolic bit text')
        raise Unsupported('find on symbolic bit text')

    def __vf_len__(self):
        return self.seq.length()

    def __len__(self):
        return self.seq.length()

    def __vf_int__(self, base):
        if base != 2:
            raise Unsupported('int(bit text) with base != 2')
        return mk_int(_z(self.seq.value()))

    def __str__(self):
        raise Unsupported('str() of symbolic bit text')


def _seq_of(x):
    """convert an argument of extend()/bitarray() to a Seq"""
    if isinstance(x, bitarray):
        return x._s
    if isinstance(x, Sym01):
        return x.seq
    if isinstance(x, str):
        if any(ch not in '01' for ch in x):
            raise ValueError(f"expected '0' or '1' (or whitespace, or underscore), got {x!r}")
        return Seq.from_01(x)
    if isinstance(x, Seq):
        return x
    if isinstance(x, (bytes, bytearray)):
        raise TypeError("cannot extend bitarray with 'bytes', use .pack() or .frombytes() instead")
    if type(x) is SymInt or isinstance(x, int):
        raise TypeError("'int' object is not iterable")
    segs = []
    for b in x:
        segs.append(_bit_seg(b))
    return Seq(segs)


def _bit_seg(b):
    if type(b) is SymBool:
        return Val(1, z3.If(b.e, 1, 0))
    if type(b) is SymInt:
        c = ctx()
        if not c.branch(z3.And(b.e >= 0, b.e <= 1)):
            raise ValueError('bit must be 0 or 1')
        return Val(1, b.e)
    if isinstance(b, bool):
        return Val(1, int(b))
    if isinstance(b, int):
        if b not in (0, 1):
            raise ValueError(f'bit must be 0 or 1, got {b}')
        return Val(1, b)
    raise TypeError(f"'{type(b).__name__}' object cannot be interpreted as an integer")


class bitarray:
    """stand-in for bitarray.bitarray (endian 'big' only)"""

    def __new__(cls, initializer=0, endian='big', buffer=None):
        if endian != 'big':
            raise Unsupported('little-endian bitarray')
        o = object.__new__(cls)
        if type(initializer) is SymInt:
            raise Unsupported('bitarray(n) with symbolic n')
        if isinstance(initializer, bool):
            raise TypeError('cannot create bitarray from bool')
        if isinstance(initializer, int):
            if initializer < 0:
                raise ValueError('bitarray length must be non-negative')
            o._s = Seq.from_int(0, initializer) if initializer else Seq()
        elif isinstance(initializer, SymInt):
            raise Unsupported('bitarray(n) with symbolic n')
        else:
            o._s = _seq_of(initializer)
        return o

    def __init__(self, *a, **k):
        pass

    # ---- size ----
    def __vf_len__(self):
        n = self._s.length()
        return n if _is_c(n) else SymInt(n)

    def __len__(self):
        n = self._s.length()
        if _is_c(n):
            return n
        raise Unsupported('builtin len() of a symbolic-length bitarray')

    def __bool__(self):
        n = self._s.length()
        if _is_c(n):
            return n != 0
        return ctx().branch(n != 0)

    def __hash__(self):
        raise TypeError("unhashable type: 'bitarray'")

    # ---- mutation ----
    def extend(self, x):
        self._s = self._s + _seq_of(x)

    def append(self, v):
        self._s = self._s + Seq([_bit_seg(v)])

    def frombytes(self, b):
        s = to_seq_bytes(b)
        if s is None:
            raise TypeError(f"a bytes-like object is required, not '{type(b).__name__}'")
        self._s = self._s + s

    def fill(self):
        n = self._s.length()
        pad = (-n) % 8 if _is_c(n) else ctx().concretise((-_z(n)) % 8, 'fill padding')
        if pad:
            self._s = self._s + Seq.from_int(0, pad)
        return pad

    def clear(self):
        self._s = Seq()

    def copy(self):
        o = object.__new__(type(self))
        o.__dict__.update({k: v for k, v in self.__dict__.items()})
        o._s = self._s
        return o

    def pop(self, i=-1):
        v = self[i]
        del self[i]
        return v

    # ---- element / slice access ----
    def _bounds(self, item):
        """normalise a slice to (start, stop) with python clamping; forks on the symbolic length where needed.
        returns concrete (start, stop) relative to the front, or ('back', k) forms are avoided by concretising"""
        c = ctx() if not self._s.concrete_len() else None
        n = self._s.length()
        if item.step not in (None, 1):
            raise Unsupported('bitarray slice with step')
        start, stop = item.start, item.stop
        if type(start) is SymInt:
            start = ctx().concretise(start.e, 'slice start')
        if type(stop) is SymInt:
            stop = ctx().concretise(stop.e, 'slice stop')
        return start, stop, n, c

    def _slice(self, item):
        """(before, middle, after) Seqs for a slice with python clamping semantics"""
        start, stop, n, c = self._bounds(item)
        s = self._s
        if _is_c(n):
            a, b, _ = slice(start, stop).indices(n)
            b = max(a, b)
            left, rest = s.take_front(a)
            mid, right = rest.take_front(b - a)
            return left, mid, right
        # symbolic length: non-negative start from the front; stop from the front, None, or negative (from the back)
        start = 0 if start is None else start
        if start < 0:
            raise Unsupported('negative slice start on symbolic-length bits')
        if start:
            if not c.branch(n >= start):
                return s, Seq(), Seq()
            left, rest = s.take_front(start)
        else:
            left, rest = Seq(), s
        if stop is None:
            return left, rest, Seq()
        if stop < 0:
            k = -stop
            if not c.branch(n - start >= k):
                return left, Seq(), rest
            mid, right = rest.take_back(k)
            return left, mid, right
        want = stop - start
        if want <= 0:
            return left, Seq(), rest
        if c.branch(n >= stop):
            mid, right = rest.take_front(want)
            return left, mid, right
        return left, rest, Seq()

    def __getitem__(self, item):
        if isinstance(item, slice):
            _, mid, _ = self._slice(item)
            o = bitarray.__new__(bitarray)
            o._s = mid
            return o
        if type(item) is SymInt:
            item = ctx().concretise(item.e, 'bit index')
        n = self._s.length()
        if _is_c(n):
            if not -n <= item < n:
                raise IndexError('bitarray index out of range')
            item %= n
            got, _ = self._s.take_front(item + 1)
            _, b = got.take_back(1)
        else:
            c = ctx()
            if item >= 0:
                if not c.branch(n >= item + 1):
                    raise IndexError('bitarray index out of range')
                got, _ = self._s.take_front(item + 1)
                _, b = got.take_back(1)
            else:
                if not c.branch(n >= -item):
                    raise IndexError('bitarray index out of range')
                _, got = self._s.take_back(-item)
                b, _ = got.take_front(1)
        v = b.value()
        return v if _is_c(v) else SymInt(v)

    def __delitem__(self, item):
        if isinstance(item, slice):
            left, _, right = self._slice(item)
            self._s = left + right
            return
        if type(item) is SymInt:
            item = ctx().concretise(item.e, 'bit index')
        self[item]          # bounds check (IndexError)
        n = self._s.length()
        if item >= 0:
            left, rest = self._s.take_front(item)
            _, right = rest.take_front(1)
        else:
            rest, right0 = self._s.take_back(-item)
            left = rest
            _, right = right0.take_front(1)
        self._s = left + right

    def __setitem__(self, item, v):
        raise Unsupported('bitarray item assignment')

    def __iter__(self):
        return iter([b if _is_c(b) else SymInt(b) for b in self._s.bits_list()])

    def __eq__(self, o):
        if not isinstance(o, bitarray):
            return False
        return mk_bool(seq_eq(self._s, o._s))

    def __ne__(self, o):
        e = self.__eq__(o)
        if isinstance(e, bool):
            return not e
        return mk_bool(z3.Not(e.e))

    def __add__(self, o):
        r = bitarray.__new__(bitarray)
        r._s = self._s + _seq_of(o)
        return r

    def __iadd__(self, o):
        self.extend(o)
        return self

    # ---- conversions ----
    def tobytes(self):
        n = self._s.length()
        pad = (-n) % 8 if _is_c(n) else ctx().concretise((-_z(n)) % 8, 'tobytes padding')
        s = self._s + (Seq.from_int(0, pad) if pad else Seq())
        return SymBytes.make(s)

    def to01(self):
        if self._s.is_concrete():
            n = self._s.length()
            return format(self._s.value(), f'0{n}b') if n else ''
        if not self._s.concrete_len():
            self._s.fix_lengths()        # forks over the feasible lengths (finite at the call sites; else Unsupported)
            self._s = Seq(self._s.segs)
            if self._s.is_concrete():
                n = self._s.length()
                return format(self._s.value(), f'0{n}b') if n else ''
        return Sym01(self._s)

    def tolist(self):
        return list(self)

    def count(self, value=1):
        raise Unsupported('bitarray.count')

    def __repr__(self):
        return f"bitarray<{list(self._s.segs)}>"

    def endian(self):
        return 'big'


frozenbitarray = bitarray


# ---- bitarray.util ----------------------------------------------------------------------------------------------

def int2ba(value, length=None, endian='big', signed=False):
    if type(value) is SymBool:
        value = value._as_int()
    if type(value) is not SymInt and not isinstance(value, int):
        raise TypeError(f"int expected, got '{type(value).__name__}'")
    if type(length) is SymInt:
        length = ctx().concretise(length.e, 'int2ba length')
    if length is None:
        raise Unsupported('int2ba without length')
    if not isinstance(length, int):
        raise TypeError('int expected for argument length')
    if length <= 0:
        raise ValueError(f'length must be > 0')
    r = bitarray.__new__(bitarray)
    if type(value) is not SymInt:
        value = int(value)
        if signed:
            if not -(1 << (length - 1)) <= value < (1 << (length - 1)):
                raise OverflowError(f'signed integer not in range(-{1 << (length - 1)}, {1 << (length - 1)}), got {value}')
            value &= (1 << length) - 1
        else:
            if value < 0:
                raise OverflowError(f'unsigned integer not positive, got {value}')
            if value >= (1 << length):
                raise OverflowError(f'unsigned integer not in range(0, {1 << length}), got {value}')
        r._s = Seq.from_int(value, length)
        return r
    c = ctx()
    e = value.e
    if signed:
        if c.branch(z3.Or(e < -(1 << (length - 1)), e >= (1 << (length - 1)))):
            raise OverflowError('signed integer not in range')
        v = z3.If(e < 0, e + (1 << length), e)
    else:
        if c.branch(z3.Or(e < 0, e >= (1 << length))):
            raise OverflowError('unsigned integer not in range')
        v = e
    r._s = Seq([Val(length, z3.simplify(v))])
    return r


def ba2int(a, signed=False):
    if not isinstance(a, bitarray):
        raise TypeError(f"bitarray expected, got '{type(a).__name__}'")
    n = a._s.length()
    if not _is_c(n):
        # value of a bit string whose length is not fixed on this path: an unconstrained integer (sound
        # over-approximation; the callers that reach this are short reads that go on to raise)
        c = ctx()
        if c.branch(n == 0):
            raise ValueError('non-empty bitarray expected')
        return SymInt(z3.Int(c.fresh('ba2int.symbolic-length')))
    if n == 0:
        raise ValueError('non-empty bitarray expected')
    v = a._s.value()
    if _is_c(v):
        if signed and v >> (n - 1):
            v -= 1 << n
        return v
    if signed:
        v = z3.If(v >= (1 << (n - 1)), v - (1 << n), v)
    return mk_int(v)


def zeros(n, endian='big'):
    r = bitarray.__new__(bitarray)
    r._s = Seq.from_int(0, n) if n else Seq()
    return r
