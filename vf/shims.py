"""Shadow builtins and library shims injected into the repository modules' globals in the symbolic world.
Each behaves exactly like the builtin on concrete arguments and understands proxies otherwise."""
import builtins
import hashlib as _hashlib
import math as _math
import base64 as _base64
import binascii as _binascii
import z3

from .sym import Unsupported, ctx, SymInt, SymBool, wrap_int, mk_int, mk_bool, ite, _z
from .bits import SymBytes, Seq, Val, Sym01, seq_eq, to_seq_bytes, bitarray as _mbitarray

_isinstance = builtins.isinstance


# ---------------------------------------------------------------------------------------------------------------
# text-ish values
# ---------------------------------------------------------------------------------------------------------------

class SymHex:
    """bytes.hex() of symbolic bytes"""

    def __init__(self, b):
        self.b = b

    @property
    def __class__(self):
        return str

    def __vf_int__(self, base):
        if base != 16:
            raise Unsupported('int(hex text) with base != 16')
        return mk_int(_z(self.b.seq.value()))

    def __eq__(self, o):
        if _isinstance(o, SymHex):
            return self.b == o.b
        if type(o) is str:
            try:
                return self.b == bytes.fromhex(o) and o == o.lower()
            except ValueError:
                return False
        return False

    def __ne__(self, o):
        e = self.__eq__(o)
        return (not e) if _isinstance(e, bool) and type(e) is bool else mk_bool(z3.Not(e.e))

    def __hash__(self):
        raise Unsupported('hash of symbolic hex text')

    def upper(self):
        return self

    def __format__(self, spec):
        return '<symhex>'

    def split(self, sep=None, maxsplit=-1):
        return [self]

    def __vf_len__(self):
        return 2 * vlen(self.b)


class SymDec:
    """str(int) / f'{int}' of a symbolic int"""

    def __init__(self, v):
        self.v = v

    @property
    def __class__(self):
        return str

    def __vf_int__(self, base):
        if base not in (10, None):
            raise Unsupported('int(decimal text) with another base')
        return self.v

    def __hash__(self):
        raise Unsupported('hash of symbolic decimal text')

    def __format__(self, spec):
        return '<symdec>'

    def split(self, sep=None, maxsplit=-1):
        return [self]


class SymStr:
    """concatenation of literal pieces and symbolic pieces (result of an f-string with symbolic data)"""

    def __init__(self, parts):
        self.parts = parts

    @property
    def __class__(self):
        return str

    def split(self, sep=None, maxsplit=-1):
        if sep is None or len(sep) != 1:
            raise Unsupported('split of symbolic text')
        out = [[]]
        for p in self.parts:
            if type(p) is str:
                chunks = p.split(sep)
                out[-1].append(chunks[0])
                for ch in chunks[1:]:
                    out.append([ch])
            else:
                if _isinstance(p, SymDec) and sep in '-0123456789':
                    raise Unsupported('separator may occur in decimal text')
                if _isinstance(p, SymHex) and sep in '0123456789abcdef':
                    raise Unsupported('separator may occur in hex text')
                out[-1].append(p)
        res = []
        for grp in out:
            grp = [g for g in grp if not (type(g) is str and g == '')]
            if not grp:
                res.append('')
            elif len(grp) == 1:
                res.append(grp[0])
            else:
                res.append(SymStr(grp))
        return res

    def __hash__(self):
        raise Unsupported('hash of symbolic text')

    def __format__(self, spec):
        return '<symstr>'

    def encode(self, *a):
        raise Unsupported('encode of symbolic text')


class SymText:
    """bytes.decode() of symbolic bytes (UTF-8 inverse pair: .encode() gives the bytes back)"""

    def __init__(self, b):
        self.b = b

    @property
    def __class__(self):
        return str

    def encode(self, *a, **k):
        return self.b

    def __eq__(self, o):
        if _isinstance(o, SymText):
            return self.b == o.b
        if type(o) is str:
            return self.b == o.encode()
        return False

    def __hash__(self):
        raise Unsupported('hash of symbolic text')

    def __format__(self, spec):
        return '<symtext>'


class SymB64:
    """base64 text of symbolic bytes; model T4: decoding the encoding returns the bytes (either alphabet)"""

    def __init__(self, b, urlsafe, as_bytes=True):
        self.b, self.urlsafe, self.as_bytes = b, urlsafe, as_bytes

    @property
    def __class__(self):
        return bytes if self.as_bytes else str

    def decode(self, *a, **k):
        return SymB64(self.b, self.urlsafe, False)

    def encode(self, *a, **k):
        return SymB64(self.b, self.urlsafe, True)

    def split(self, sep=None, maxsplit=-1):
        if sep is not None and sep not in 'ABCDEFGHIJKLMNOPQRSTUVWXYZabcdefghijklmnopqrstuvwxyz0123456789+/-_=':
            return [self]
        raise Unsupported('split of base64 text on an alphabet character')

    def __hash__(self):
        raise Unsupported('hash of symbolic base64 text')

    def __format__(self, spec):
        return '<symb64>'


class SymRatio:
    """int / int  (only ceil / floor are supported)"""

    def __init__(self, n, d):
        self.n, self.d = n, d


def vf_fstr(*parts):
    """R1: f-string with possibly symbolic values. parts: literal strings and (value, conversion, spec) tuples"""
    out = []
    sym = False
    for p in parts:
        if type(p) is str:
            out.append(p)
            continue
        v, conv, spec = p
        if _isinstance(v, SymInt) and type(v) is SymInt and conv == -1 and not spec:
            out.append(SymDec(v))
            sym = True
        elif type(v) in (SymHex, SymDec, SymStr, SymText, SymB64):
            out.append(v)
            sym = True
        else:
            if conv == ord('r'):
                v = repr(v)
            elif conv == ord('s'):
                v = builtins.str(v)
            elif conv == ord('a'):
                v = ascii(v)
            out.append(format(v, spec) if spec else format(v))
    if not sym:
        return ''.join(out)
    merged = []
    for p in out:
        if type(p) is str and merged and type(merged[-1]) is str:
            merged[-1] += p
        else:
            merged.append(p)
    return SymStr(merged)


# ---------------------------------------------------------------------------------------------------------------
# shadow builtins
# ---------------------------------------------------------------------------------------------------------------

def vlen(x):
    f = getattr(type(x), '__vf_len__', None)
    if f is not None:
        return f(x)
    return builtins.len(x)


def vrange(*args):
    if any(type(a) is SymInt for a in args):
        c = ctx()
        args = [c.concretise(a.e, 'range bound') if type(a) is SymInt else a for a in args]
    return builtins.range(*args)


class SymBin:
    """bin(v) of a symbolic NON-NEGATIVE int whose bit length is fixed on the path: '0b' + L binary digits"""

    def __init__(self, seq):
        self.seq = seq

    @property
    def __class__(self):
        return str

    def __getitem__(self, item):
        if _isinstance(item, slice) and item.start == 2 and item.stop is None and item.step is None:
            return Sym01(self.seq)
        raise Unsupported('indexing bin() text other than [2:]')

    def __hash__(self):
        raise Unsupported('hash of symbolic bin() text')


def vbin(x):
    if type(x) is SymInt:
        c = ctx()
        if c.branch(x.e < 0):
            x = c.concretise(x.e, 'bin() of a negative symbolic int')
            return builtins.bin(x)
        L = x.bit_length()              # forks: one path per feasible length
        if L == 0:
            return '0b0'
        return SymBin(Seq([Val(L, x.e)]))
    return builtins.bin(x)


def vhex(x):
    if type(x) is SymInt:
        raise Unsupported('hex() of symbolic int')
    return builtins.hex(x)


def vmin(*a, **k):
    if len(a) > 1 and any(type(x) is SymInt for x in a) and not k:
        r = a[0]
        for x in a[1:]:
            r = ite(x < r, x, r)
        return r
    return builtins.min(*a, **k)


def vmax(*a, **k):
    if len(a) > 1 and any(type(x) is SymInt for x in a) and not k:
        r = a[0]
        for x in a[1:]:
            r = ite(x > r, x, r)
        return r
    return builtins.max(*a, **k)


def vabs(x):
    return abs(x)


class _VIntMeta(type):
    def __instancecheck__(cls, o):
        return _isinstance(o, builtins.int) or type(o) in (SymInt, SymBool)

    def __subclasscheck__(cls, sub):
        return issubclass(sub, builtins.int)


class VInt(builtins.int, metaclass=_VIntMeta):
    def __new__(cls, x=0, base=None):
        t = type(x)
        if t is SymInt:
            return x
        if t is SymBool:
            return x._as_int()
        f = getattr(t, '__vf_int__', None)
        if f is not None:
            return f(x, base if base is not None else 10)
        if t is SymRatio:
            raise Unsupported('int() of a symbolic ratio')
        if base is None:
            return builtins.int(x)
        return builtins.int(x, base)

    @staticmethod
    def from_bytes(b, byteorder='big', *, signed=False):
        if type(b) is SymBytes:
            n = b.seq.length()
            if not isinstance(n, builtins.int):
                b.seq.fix_lengths()
                n = b.seq.length()
            if byteorder == 'little':
                b = b.reversed_bytes()
                if type(b) is not SymBytes:
                    return builtins.int.from_bytes(b, 'big', signed=signed)
            elif byteorder != 'big':
                raise ValueError("byteorder must be either 'little' or 'big'")
            if n == 0:
                return 0
            v = _z(b.seq.value())
            if signed:
                v = z3.If(v >= (1 << (n - 1)), v - (1 << n), v)
            return mk_int(v)
        return builtins.int.from_bytes(b, byteorder, signed=signed)


class _VBytesMeta(type):
    def __instancecheck__(cls, o):
        return _isinstance(o, builtins.bytes) or type(o) is SymBytes or (type(o) is SymB64 and o.as_bytes)


class VBytes(builtins.bytes, metaclass=_VBytesMeta):
    def __new__(cls, x=b'', *a):
        if type(x) is VByteArray:
            return x.v
        if type(x) is SymBytes:
            return x
        if type(x) is SymInt:
            raise Unsupported('bytes(n) with symbolic n')
        return builtins.bytes(x, *a)

    @staticmethod
    def fromhex(s):
        if type(s) is SymHex:
            return s.b
        if type(s) in (SymStr, SymDec, SymB64, SymText):
            raise ValueError('non-hexadecimal number found in fromhex() arg')
        return builtins.bytes.fromhex(s)


class _VByteArrayMeta(type):
    def __instancecheck__(cls, o):
        return _isinstance(o, builtins.bytearray) or type(o) is VByteArray


class VByteArray(metaclass=_VByteArrayMeta):
    """shadow of `bytearray`: a growable byte string whose content may be symbolic (append-style use only)"""

    def __init__(self, x=b''):
        if type(x) is VByteArray:
            x = x.v
        elif _isinstance(x, builtins.int) and type(x) is not SymInt:
            x = builtins.bytes(x)
        elif type(x) is not SymBytes:
            x = builtins.bytes(x)
        self.v = x

    def _cat(self, o):
        if type(o) is VByteArray:
            o = o.v
        if type(o) is SymBytes or _isinstance(o, (builtins.bytes, builtins.bytearray)):
            r = self.v + (builtins.bytes(o) if _isinstance(o, builtins.bytearray) else o)
            return r
        raise TypeError(f"can't concat {type(o).__name__} to bytearray")

    def __iadd__(self, o):
        self.v = self._cat(o)
        return self

    def __add__(self, o):
        return VByteArray(self._cat(o))

    def __radd__(self, o):
        if _isinstance(o, builtins.bytes):
            return VByteArray(o + self.v)
        return NotImplemented

    def extend(self, o):
        self.v = self._cat(o)

    def append(self, b):
        if type(b) is SymInt:
            self.v = self.v + b.to_bytes(1, 'big')
        else:
            self.v = self.v + builtins.bytes([b])

    def __vf_len__(self):
        return vlen(self.v)

    def __len__(self):
        return len(self.v)

    def __getitem__(self, i):
        r = self.v[i]
        return VByteArray(r) if _isinstance(i, slice) else r

    def __eq__(self, o):
        if type(o) is VByteArray:
            o = o.v
        return self.v == o

    def __ne__(self, o):
        if type(o) is VByteArray:
            o = o.v
        return self.v != o

    def __hash__(self):
        raise TypeError("unhashable type: 'bytearray'")

    def __iter__(self):
        return iter(self.v)

    def hex(self):
        return self.v.hex()


class _VStrMeta(type):
    def __instancecheck__(cls, o):
        return _isinstance(o, builtins.str) or type(o) in (SymHex, SymDec, SymStr, SymText, Sym01) or \
            (type(o) is SymB64 and not o.as_bytes)


class VStr(builtins.str, metaclass=_VStrMeta):
    def __new__(cls, x='', *a):
        if type(x) is SymInt:
            # only finite small domains (single bits): fork
            return builtins.str(ctx().concretise(x.e, 'str() argument'))
        if type(x) is SymBool:
            return builtins.str(bool(x))
        if type(x) in (SymHex, SymDec, SymStr, SymText, Sym01):
            return x
        return builtins.str(x, *a)


class _VBoolMeta(type):
    def __instancecheck__(cls, o):
        return _isinstance(o, builtins.bool) or type(o) is SymBool


class VBool(metaclass=_VBoolMeta):
    """shadow of `bool` (bool cannot be subclassed): callable + isinstance"""
    def __new__(cls, x=False):
        if type(x) is SymBool:
            return x
        if type(x) is SymInt:
            return mk_bool(x.e != 0)
        return builtins.bool(x)


# ---------------------------------------------------------------------------------------------------------------
# hashlib
# ---------------------------------------------------------------------------------------------------------------

_DIGEST_BITS = {'sha256': 256, 'sha512': 512, 'crc16': 16, 'crc32c': 32}


def digest_of(alg, seq: Seq):
    """T3: digests are an uninterpreted, deterministic function of the input: equal inputs give the same term.
    Every digest taken on a path is registered (also those of concrete inputs, with their real value), and a lookup by
    bit-string equality precedes everything else, so that an input that is symbolic at one call and has become concrete
    at another (after a fork fixed its length) still maps to the same term."""
    from . import sym as _sym
    c = _sym._CTX
    concrete = seq.is_concrete()
    if c is None:
        if not concrete:
            raise Unsupported('digest of symbolic data outside a path context')
        return _real_digest(alg, seq)
    reg = c.store.setdefault('digests', [])
    found = None
    for (a, s, const) in reg:
        if a != alg:
            continue
        try:
            e = seq_eq(s, seq)
        except Unsupported:
            continue
        if e is True or (e is not False and c.valid(e)):
            if found is None:
                found = const
            else:
                # functionality: two registered inputs that both provably equal this input have the same digest
                fa = z3.IntVal(int.from_bytes(found, 'big')) if _isinstance(found, builtins.bytes) else found
                fb = z3.IntVal(int.from_bytes(const, 'big')) if _isinstance(const, builtins.bytes) else const
                c.add(fa == fb)
    if found is not None:
        if _isinstance(found, builtins.bytes):
            return found
        return SymBytes([Val(_DIGEST_BITS[alg], found)])
    if concrete:
        d = _real_digest(alg, seq)
        reg.append((alg, seq, d))
        return d
    const = z3.Int(f'H{alg}#{len(reg)}')
    c.add(z3.And(const >= 0, const < (1 << _DIGEST_BITS[alg])))
    reg.append((alg, seq, const))
    return SymBytes([Val(_DIGEST_BITS[alg], const)])


def _real_digest(alg, seq):
    n = seq.length()
    data = seq.value().to_bytes(n // 8, 'big') if n else b''
    if alg in ('crc16', 'crc32c'):
        from .spec import crc as _crc
        return _crc.crc16_xmodem(data) if alg == 'crc16' else _crc.crc32c(data)
    return getattr(_hashlib, alg)(data).digest()


class _Hash:
    def __init__(self, alg, data=b''):
        self.alg = alg
        self.seq = Seq()
        self.digest_size = _DIGEST_BITS[alg] // 8
        if data is not None:
            self.update(data)

    def update(self, d):
        s = to_seq_bytes(d)
        if s is None:
            raise TypeError(f"object supporting the buffer API required, not {type(d).__name__}")
        self.seq = self.seq + s

    def digest(self):
        return digest_of(self.alg, self.seq)

    def hexdigest(self):
        d = self.digest()
        return d.hex()

    def copy(self):
        h = _Hash(self.alg)
        h.seq = self.seq
        return h


class HashlibShim:
    @staticmethod
    def sha256(data=b'', **k):
        return _Hash('sha256', data)

    @staticmethod
    def sha512(data=b'', **k):
        return _Hash('sha512', data)

    @staticmethod
    def pbkdf2_hmac(*a, **k):
        if any(type(x) is SymBytes for x in a):
            raise Unsupported('pbkdf2 on symbolic input')
        return _hashlib.pbkdf2_hmac(*a, **k)

    def __getattr__(self, n):
        return getattr(_hashlib, n)


class MathShim:
    def __getattr__(self, n):
        return getattr(_math, n)

    @staticmethod
    def ceil(x):
        if type(x) is SymRatio:
            return mk_int((x.n + (x.d - 1)) / x.d)
        if type(x) is SymInt:
            return x
        return _math.ceil(x)

    @staticmethod
    def floor(x):
        if type(x) is SymRatio:
            return mk_int(x.n / x.d)
        if type(x) is SymInt:
            return x
        return _math.floor(x)


class Base64Shim:
    def __getattr__(self, n):
        return getattr(_base64, n)

    @staticmethod
    def b64encode(b, altchars=None):
        if type(b) is SymBytes:
            return SymB64(b, False)
        return _base64.b64encode(b, altchars)

    @staticmethod
    def urlsafe_b64encode(b):
        if type(b) is SymBytes:
            return SymB64(b, True)
        return _base64.urlsafe_b64encode(b)

    @staticmethod
    def _dec(s, f):
        if type(s) is SymB64:
            return s.b
        if type(s) in (SymHex, SymDec, SymStr, SymText):
            raise Unsupported('base64 decoding of other symbolic text')
        return f(s)

    @staticmethod
    def b64decode(s, *a, **k):
        return Base64Shim._dec(s, lambda x: _base64.b64decode(x, *a, **k))

    @staticmethod
    def urlsafe_b64decode(s):
        return Base64Shim._dec(s, _base64.urlsafe_b64decode)


SHADOWS = {
    'len': vlen, 'range': vrange, 'int': VInt, 'bytes': VBytes, 'str': VStr, 'bool': VBool, 'bin': vbin, 'hex': vhex,
    'min': vmin, 'max': vmax, '_vf_fstr_': vf_fstr, 'bytearray': VByteArray,
}

MODULE_SHIMS = {'hashlib': HashlibShim(), 'math': MathShim(), 'base64': Base64Shim()}
