"""Symbolic core: path context, SymInt / SymBool proxies, exhaustive path exploration by re-execution.

The real repository code is *executed by CPython* on these proxies.  A proxy is a plain object: any C function
that receives one raises TypeError, and __index__/__hash__/__len__ either fork-concretise over a *finite* set of
solver-feasible values or raise Unsupported.  Nothing is silently concretised.
"""
import itertools
import time
import z3

__all__ = ['Unsupported', 'PathInfeasible', 'Ctx', 'ctx', 'SymInt', 'SymBool', 'explore', 'wrap_int', 'is_sym',
           'sym_and', 'sym_or', 'sym_not', 'to_z3_bool', 'ite', 'PathBudget']


class Unsupported(BaseException):
    """The code left the fragment the models support: the obligation is UNDECIDED, never a violation."""


class PathInfeasible(BaseException):
    pass


class PathBudget(BaseException):
    pass


_CTX = None


def ctx() -> "Ctx":
    if _CTX is None:
        raise Unsupported('symbolic value used outside a path context')
    return _CTX


def _set_ctx(c):
    global _CTX
    _CTX = c


CVC5_SAMPLE = [0]        # 0 = off; N = cross-check every N-th discharged VC with cvc5 (thorough tier)
CVC5_STATS = {'seen': 0}


class Ctx:
    """One execution path: solver with the path condition, decision prefix to replay, new alternatives found."""
    CONCRETISE_CAP = 600

    def __init__(self, prefix=(), timeout_ms=10000):
        self.prefix = list(prefix)
        self.pos = 0
        self.taken = []
        self.alts = []
        self.solver = z3.Solver()
        self.solver.set('timeout', timeout_ms)
        self.pc = []
        self.n_checks = 0
        self.solver_s = 0.0
        self.names = itertools.count()
        self.notes = []          # free-form facts for evidence (assumptions used on this path)
        self.ticks = {}          # ghost counters
        self.unknowns = 0
        self.store = {}          # per-path scratch for models (buffers, digests)

    # -- constraints ---------------------------------------------------------------------------------------------
    def add(self, c):
        if isinstance(c, SymBool):
            c = c.e
        if c is True:
            return
        if c is False:
            raise PathInfeasible()
        c = z3.simplify(c)
        if z3.is_true(c):
            return
        self.pc.append(c)
        self.solver.add(c)

    def assume(self, c):
        """assume: restricts the path (used for preconditions and callee postconditions only)."""
        c = to_z3_bool(c)
        if c is False or (not isinstance(c, bool) and z3.is_false(z3.simplify(c))):
            raise PathInfeasible()
        if c is True:
            return
        if self._check(c) == z3.unsat:
            raise PathInfeasible()
        self.add(c)

    def _check(self, *assumptions):
        t = time.time()
        r = self.solver.check(*assumptions)
        self.solver_s += time.time() - t
        self.n_checks += 1
        if r == z3.unknown:
            self.unknowns += 1
        return r

    def feasible(self, c):
        return self._check(c) != z3.unsat

    def branch(self, c) -> bool:
        """Decide a symbolic condition: follow the prefix, or explore both feasible sides."""
        if isinstance(c, SymBool):
            c = c.e
        if isinstance(c, bool):
            return c
        c = z3.simplify(c)
        if z3.is_true(c):
            return True
        if z3.is_false(c):
            return False
        if self.pos < len(self.prefix):
            d = self.prefix[self.pos]
        else:
            t = self.feasible(c)
            f = self.feasible(z3.Not(c))
            if t and f:
                self.alts.append(self.taken + [False])
                d = True
            elif t:
                d = True
            elif f:
                d = False
            else:
                raise PathInfeasible()
        self.pos += 1
        self.taken.append(d)
        cc = c if d else z3.Not(c)
        self.pc.append(cc)
        self.solver.add(cc)
        return d

    def concretise(self, e, what='value') -> int:
        """Fork over every solver-feasible value of e (finite domains only): one path per value."""
        if type(e) is SymInt:
            e = e.e
        if type(e) is int:
            return e
        e = z3.simplify(e)
        if z3.is_int_value(e):
            return e.as_long()
        excl = ()
        if self.pos < len(self.prefix):
            d = self.prefix[self.pos]
            if d[0] == 'val':
                self.pos += 1
                self.taken.append(d)
                cc = e == d[1]
                self.pc.append(cc)
                self.solver.add(cc)
                return d[1]
            assert d[0] == 'alt' and self.pos == len(self.prefix) - 1, d
            excl = d[1]
        if len(excl) >= self.CONCRETISE_CAP:
            raise Unsupported(f'concretise {what}: more than {self.CONCRETISE_CAP} values')
        r = self._check(*[e != x for x in excl])
        if r == z3.unsat:
            raise PathInfeasible()
        if r != z3.sat:
            raise Unsupported(f'concretise {what}: solver unknown')
        v = self.solver.model().eval(e, model_completion=True).as_long()
        if self._check(*[e != x for x in excl + (v,)]) != z3.unsat:
            self.alts.append(self.taken + [('alt', excl + (v,))])
        self.pos += 1
        self.taken.append(('val', v))
        cc = e == v
        self.pc.append(cc)
        self.solver.add(cc)
        return v

    # -- proving -------------------------------------------------------------------------------------------------
    def prove(self, goal):
        """returns ('proved', None) | ('refuted', model-dict) | ('unknown', reason)"""
        g = to_z3_bool(goal)
        if g is True:
            return 'proved', None
        if g is False:
            r = self._check()
            if r == z3.unsat:
                return 'proved', None   # unreachable path
            return ('refuted', self._model_dict()) if r == z3.sat else ('unknown', 'solver unknown')
        g = z3.simplify(g)
        if z3.is_true(g):
            return 'proved', None
        r = self._check(z3.Not(g))
        if r == z3.unsat:
            if CVC5_SAMPLE[0]:
                self._cvc5_crosscheck(g)
            return 'proved', None
        if r == z3.sat:
            return 'refuted', self._model_dict()
        return 'unknown', self.solver.reason_unknown()

    def _cvc5_crosscheck(self, g):
        """second back end (thorough tier): every CVC5_SAMPLE-th discharged VC is exported as SMT-LIB2 and given to /usr/bin/cvc5;
        'sat' from cvc5 on a VC z3 proved is a back-end disagreement (recorded, reported as a checker fault by the driver)"""
        CVC5_STATS['seen'] += 1
        if CVC5_STATS['seen'] % CVC5_SAMPLE[0]:
            return
        import subprocess
        import tempfile
        s2 = z3.Solver()
        for c in self.pc:
            s2.add(c)
        s2.add(z3.Not(g))
        txt = '(set-logic ALL)\n' + s2.to_smt2()
        try:
            with tempfile.NamedTemporaryFile('w', suffix='.smt2', delete=True) as f:
                f.write(txt)
                f.flush()
                p = subprocess.run(['/usr/bin/cvc5', '--tlimit=5000', f.name], capture_output=True, text=True, timeout=20)
            out = p.stdout.strip().splitlines()[-1] if p.stdout.strip() else 'error'
        except Exception as e:      # noqa
            out = 'error'
        key = out if out in ('unsat', 'sat', 'unknown') else 'error'
        CVC5_STATS[key] = CVC5_STATS.get(key, 0) + 1
        if key == 'sat':
            CVC5_STATS.setdefault('disagreements', []).append(str(g)[:300])

    def _model_dict(self):
        m = self.solver.model()
        out = {}
        for d in m.decls():
            if d.arity() == 0:
                v = m[d]
                try:
                    out[d.name()] = v.as_long() if z3.is_int_value(v) else str(v)
                except Exception:
                    out[d.name()] = str(v)
        return out

    def model_eval(self, e):
        m = self.solver.model()
        if isinstance(e, (SymInt, SymBool)):
            e = e.e
        if isinstance(e, (int, bool)):
            return e
        v = m.eval(e, model_completion=True)
        if z3.is_int_value(v):
            return v.as_long()
        if z3.is_true(v):
            return True
        if z3.is_false(v):
            return False
        return str(v)

    def valid(self, goal) -> bool:
        return self.prove(goal)[0] == 'proved'

    # -- fresh symbols -------------------------------------------------------------------------------------------
    def int(self, name, lo=None, hi=None) -> "SymInt":
        v = z3.Int(name)
        if lo is not None:
            self.add(v >= lo)
        if hi is not None:
            self.add(v <= hi)
        return SymInt(v)

    def bool(self, name) -> "SymBool":
        return SymBool(z3.Bool(name))

    def fresh(self, stem):
        return f'{stem}!{next(self.names)}'

    def tick(self, key, n=1):
        self.ticks[key] = self.ticks.get(key, 0) + n

    def upper_bits(self, e, limit=64):
        """smallest k in a fixed ladder with 0 <= e < 2^k valid on this path, else None"""
        if isinstance(e, SymInt):
            e = e.e
        if isinstance(e, int):
            return e.bit_length() if e >= 0 else None
        if not self.valid(e >= 0):
            return None
        for k in (1, 2, 3, 4, 5, 6, 7, 8, 16, 32, 64, 128, 256, 257):
            if k > limit:
                break
            if self.valid(e < (1 << k)):
                return k
        return None


# ------------------------------------------------------------------------------------------------------------------

def is_sym(x):
    return isinstance(x, (SymInt, SymBool))


def wrap_int(x):
    """python int / bool / SymInt / SymBool -> z3 Int term or python int"""
    if isinstance(x, SymInt):
        return x.e
    if isinstance(x, SymBool):
        return z3.If(x.e, 1, 0)
    if isinstance(x, bool):
        return int(x)
    if isinstance(x, int):
        return x
    return NotImplemented


def to_z3_bool(x):
    if isinstance(x, SymBool):
        return x.e
    if isinstance(x, bool):
        return x
    if isinstance(x, SymInt):
        return x.e != 0
    if isinstance(x, int):
        return x != 0
    if z3.is_expr(x):
        return x
    raise Unsupported(f'not a boolean: {type(x)}')


def _z(x):
    return z3.IntVal(x) if isinstance(x, int) else x


def mk_int(e):
    """normalise a result: python int when concrete, SymInt otherwise"""
    if isinstance(e, int):
        return e
    e = z3.simplify(e)
    if z3.is_int_value(e):
        return e.as_long()
    return SymInt(e)


def mk_bool(e):
    if isinstance(e, bool):
        return e
    e = z3.simplify(e)
    if z3.is_true(e):
        return True
    if z3.is_false(e):
        return False
    return SymBool(e)


def sym_and(*xs):
    zs = [to_z3_bool(x) for x in xs]
    if any(z is False for z in zs):
        return False
    zs = [z for z in zs if z is not True]
    if not zs:
        return True
    return mk_bool(z3.And(*zs))


def sym_or(*xs):
    zs = [to_z3_bool(x) for x in xs]
    if any(z is True for z in zs):
        return True
    zs = [z for z in zs if z is not False]
    if not zs:
        return False
    return mk_bool(z3.Or(*zs))


def sym_not(x):
    z = to_z3_bool(x)
    if isinstance(z, bool):
        return not z
    return mk_bool(z3.Not(z))


def ite(c, a, b):
    c = to_z3_bool(c)
    if c is True:
        return a
    if c is False:
        return b
    return mk_int(z3.If(c, _z(wrap_int(a)), _z(wrap_int(b))))


def _bit(e, i):
    """bit i (0/1) of integer term e, Python semantics (two's complement, floor)"""
    return (e / (1 << i)) % 2


class SymBool:
    __slots__ = ('e',)

    def __init__(self, e):
        self.e = e

    @property
    def __class__(self):
        return bool

    def __bool__(self):
        return ctx().branch(self.e)

    def __hash__(self):
        raise Unsupported('hash of symbolic bool')

    def __index__(self):
        return 1 if ctx().branch(self.e) else 0

    def __int__(self):
        return self.__index__()

    def _as_int(self):
        return SymInt(z3.If(self.e, 1, 0))

    def __eq__(self, o):
        if isinstance(o, SymBool):
            return mk_bool(self.e == o.e)
        if isinstance(o, bool):
            return self if o else sym_not(self)
        return self._as_int() == o

    def __ne__(self, o):
        return sym_not(self.__eq__(o))

    def __and__(self, o):
        if isinstance(o, (SymBool, bool)):
            return sym_and(self, o)
        return self._as_int() & o

    __rand__ = __and__

    def __or__(self, o):
        if isinstance(o, (SymBool, bool)):
            return sym_or(self, o)
        return self._as_int() | o

    __ror__ = __or__

    def __invert__(self):
        raise Unsupported('~ on symbolic bool')

    def __add__(self, o):
        return self._as_int() + o

    __radd__ = __add__

    def __mul__(self, o):
        return self._as_int() * o

    __rmul__ = __mul__

    def __sub__(self, o):
        return self._as_int() - o

    def __rsub__(self, o):
        return o - self._as_int()

    def __lt__(self, o):
        return self._as_int() < o

    def __gt__(self, o):
        return self._as_int() > o

    def __le__(self, o):
        return self._as_int() <= o

    def __ge__(self, o):
        return self._as_int() >= o

    def __repr__(self):
        return f'SymBool({self.e})'

    def __str__(self):
        raise Unsupported('str() of a symbolic bool')

    def __format__(self, spec):
        return '<symbool>'


class SymInt:
    __slots__ = ('e',)

    def __init__(self, e):
        self.e = e

    @property
    def __class__(self):
        return int

    # -- escapes -------------------------------------------------------------------------------------------------
    def __bool__(self):
        return ctx().branch(self.e != 0)

    def __index__(self):
        return ctx().concretise(self.e, 'index')

    def __int__(self):
        raise Unsupported('int() of symbolic int via C protocol')

    def __hash__(self):
        raise Unsupported('hash of symbolic int')

    def __repr__(self):
        return f'SymInt({self.e})'

    def __str__(self):
        raise Unsupported('str() of a symbolic int')

    def __format__(self, spec):
        return '<symint>'

    # -- arithmetic ----------------------------------------------------------------------------------------------
    def _bin(self, o, f):
        w = wrap_int(o)
        if w is NotImplemented:
            return NotImplemented
        return mk_int(f(self.e, _z(w)))

    def _rbin(self, o, f):
        w = wrap_int(o)
        if w is NotImplemented:
            return NotImplemented
        return mk_int(f(_z(w), self.e))

    def __add__(self, o):
        return self._bin(o, lambda a, b: a + b)

    def __radd__(self, o):
        return self._rbin(o, lambda a, b: a + b)

    def __sub__(self, o):
        return self._bin(o, lambda a, b: a - b)

    def __rsub__(self, o):
        return self._rbin(o, lambda a, b: a - b)

    def __mul__(self, o):
        return self._bin(o, lambda a, b: a * b)

    def __rmul__(self, o):
        return self._rbin(o, lambda a, b: a * b)

    def __neg__(self):
        return mk_int(-self.e)

    def __pos__(self):
        return self

    def __abs__(self):
        return mk_int(z3.If(self.e >= 0, self.e, -self.e))

    @staticmethod
    def _posdiv(o, what):
        w = wrap_int(o)
        if w is NotImplemented:
            return NotImplemented
        if not isinstance(w, int):
            c = ctx()
            if c.valid(w > 0):
                return w
            raise Unsupported(f'{what} by a symbolic divisor not known positive')
        if w == 0:
            raise ZeroDivisionError('integer division or modulo by zero')
        if w < 0:
            raise Unsupported(f'{what} by a negative constant')
        return w

    def __floordiv__(self, o):
        w = self._posdiv(o, '//')
        if w is NotImplemented:
            return w
        return mk_int(self.e / _z(w))      # z3 Int div == floor for positive divisors

    def __rfloordiv__(self, o):
        c = ctx()
        if not c.valid(self.e > 0):
            raise Unsupported('// by symbolic divisor not known positive')
        return mk_int(_z(wrap_int(o)) / self.e)

    def __mod__(self, o):
        w = self._posdiv(o, '%')
        if w is NotImplemented:
            return w
        return mk_int(self.e % _z(w))

    def __rmod__(self, o):
        c = ctx()
        if not c.valid(self.e > 0):
            raise Unsupported('% by symbolic divisor not known positive')
        return mk_int(_z(wrap_int(o)) % self.e)

    def __truediv__(self, o):
        from .shims import SymRatio
        w = wrap_int(o)
        if not isinstance(w, int) or w <= 0:
            raise Unsupported('true division by non-constant')
        return SymRatio(self.e, w)

    def __rtruediv__(self, o):
        raise Unsupported('true division by a symbolic int (float arithmetic is outside the modelled fragment)')

    def __pow__(self, o, mod=None):
        if type(o) is int and mod is None and 0 <= o <= 4:
            r = 1
            for _ in range(o):
                r = r * self
            return r
        raise Unsupported('** with symbolic operand')

    def __rpow__(self, o):
        if type(o) is int and o == 2:
            k = ctx().concretise(self.e, 'exponent')
            return 2 ** k
        raise Unsupported('** with symbolic exponent')

    def __lshift__(self, o):
        k = o if type(o) is int else ctx().concretise(wrap_int(o), 'shift')
        return mk_int(self.e * (1 << k))

    def __rlshift__(self, o):
        k = ctx().concretise(self.e, 'shift')
        return o << k

    def __rshift__(self, o):
        k = o if type(o) is int else ctx().concretise(wrap_int(o), 'shift')
        return mk_int(self.e / (1 << k))

    def __rrshift__(self, o):
        k = ctx().concretise(self.e, 'shift')
        return o >> k

    def __and__(self, o):
        w = wrap_int(o)
        if w is NotImplemented:
            return NotImplemented
        if isinstance(w, int):
            if w < 0:
                raise Unsupported('& with negative constant')
            return mk_int(_and_const(self.e, w))
        return self._bitwise(w, 'and')

    __rand__ = __and__

    def __or__(self, o):
        w = wrap_int(o)
        if w is NotImplemented:
            return NotImplemented
        if isinstance(w, int):
            if w < 0:
                raise Unsupported('| with negative constant')
            # x | c  =  x + c - (x & c)
            return mk_int(self.e + w - _and_const(self.e, w))
        return self._bitwise(w, 'or')

    __ror__ = __or__

    def __xor__(self, o):
        w = wrap_int(o)
        if w is NotImplemented:
            return NotImplemented
        if isinstance(w, int):
            if w < 0:
                raise Unsupported('^ with negative constant')
            # x ^ c = x + c - 2*(x & c)
            return mk_int(self.e + w - 2 * _and_const(self.e, w))
        return self._bitwise(w, 'xor')

    __rxor__ = __xor__

    def __invert__(self):
        return mk_int(-self.e - 1)

    def _bitwise(self, w, op):
        c = ctx()
        ka = c.upper_bits(self.e, 64)
        kb = c.upper_bits(w, 64)
        if ka is None or kb is None:
            raise Unsupported(f'bitwise {op} of symbolic ints without proved small non-negative range')
        k = max(ka, kb)
        terms = []
        for i in range(k):
            a = _bit(self.e, i) == 1
            b = _bit(w, i) == 1
            r = {'and': z3.And(a, b), 'or': z3.Or(a, b), 'xor': z3.Xor(a, b)}[op]
            terms.append(z3.If(r, 1 << i, 0))
        return mk_int(z3.Sum(terms) if terms else z3.IntVal(0))

    # -- comparisons ---------------------------------------------------------------------------------------------
    def _cmp(self, o, f):
        w = wrap_int(o)
        if w is NotImplemented:
            return NotImplemented
        return mk_bool(f(self.e, _z(w)))

    def __eq__(self, o):
        r = self._cmp(o, lambda a, b: a == b)
        return False if r is NotImplemented else r

    def __ne__(self, o):
        r = self._cmp(o, lambda a, b: a != b)
        return True if r is NotImplemented else r

    def __lt__(self, o):
        return self._cmp(o, lambda a, b: a < b)

    def __le__(self, o):
        return self._cmp(o, lambda a, b: a <= b)

    def __gt__(self, o):
        return self._cmp(o, lambda a, b: a > b)

    def __ge__(self, o):
        return self._cmp(o, lambda a, b: a >= b)

    # -- int methods ---------------------------------------------------------------------------------------------
    def bit_length(self):
        """one path per feasible length k: 2^(k-1) <= |v| < 2^k (the defining inequality).
        The feasible range of k is first narrowed by validity queries (binary search), then forked."""
        c = ctx()
        a = z3.If(self.e >= 0, self.e, -self.e)
        MAXK = 1100
        # smallest hi with valid(a < 2^hi)
        if not c.valid(a < (1 << MAXK)):
            raise Unsupported('bit_length of a value not known to be below 2^1100')
        lo, hi = 0, MAXK
        while lo < hi:
            mid = (lo + hi) // 2
            if c.valid(a < (1 << mid)):
                hi = mid
            else:
                lo = mid + 1
        k_hi = hi
        # largest lo with valid(a >= 2^(lo-1)), i.e. bit_length >= lo
        lo, hi = 0, k_hi
        while lo < hi:
            mid = (lo + hi + 1) // 2
            if c.valid(a >= (1 << (mid - 1))):
                lo = mid
            else:
                hi = mid - 1
        k_lo = lo
        for k in range(k_lo, k_hi):
            if c.branch(a < (1 << k)):
                return k
        return k_hi

    def to_bytes(self, length=1, byteorder='big', *, signed=False):
        from .bits import SymBytes, Val
        c = ctx()
        n = length if type(length) is int else c.concretise(wrap_int(length), 'to_bytes length')
        if signed:
            bad = z3.Or(self.e < -(1 << (8 * n - 1)) if n else self.e < 0, self.e >= ((1 << (8 * n - 1)) if n else 1))
        else:
            if c.branch(self.e < 0):
                raise OverflowError("can't convert negative int to unsigned")
            bad = self.e >= (1 << (8 * n))
        if c.branch(bad):
            raise OverflowError('int too big to convert')
        v = z3.If(self.e < 0, self.e + (1 << (8 * n)), self.e) if signed else self.e
        r = SymBytes([Val(8 * n, z3.simplify(v))]) if n else SymBytes([])
        if byteorder == 'little':
            return r.reversed_bytes()
        if byteorder != 'big':
            raise ValueError("byteorder must be either 'little' or 'big'")
        return r

    def conjugate(self):
        return self


def _and_const(e, mask):
    """e & mask for a non-negative constant mask: sum over maximal runs of set bits (div/mod by constants)"""
    terms = []
    i = 0
    while (1 << i) <= mask:
        if (mask >> i) & 1:
            j = i
            while (mask >> j) & 1:
                j += 1
            # bits i..j-1
            terms.append(((e / (1 << i)) % (1 << (j - i))) * (1 << i))
            i = j
        else:
            i += 1
    if not terms:
        return z3.IntVal(0)
    return z3.Sum(terms) if len(terms) > 1 else terms[0]


# ------------------------------------------------------------------------------------------------------------------

def explore(fn, max_paths=20000, max_seconds=300, timeout_ms=10000):
    """Run fn(ctx) once per feasible path (depth-first by re-execution).
    Yields (ctx, kind, payload): kind in 'return' | 'raise' | 'unsupported'."""
    work = [[]]
    n = 0
    t0 = time.time()
    while work:
        prefix = work.pop()
        n += 1
        if n > max_paths or time.time() - t0 > max_seconds:
            raise PathBudget(f'path budget exhausted after {n - 1} paths / {time.time() - t0:.0f}s')
        c = Ctx(prefix, timeout_ms)
        _set_ctx(c)
        try:
            try:
                r = fn(c)
                out = ('return', r)
            except PathInfeasible:
                out = None
            except Unsupported as u:
                out = ('unsupported', u)
            except PathBudget:
                raise
            except RecursionError as e:
                out = ('raise', e)
            except Exception as e:
                out = ('raise', e)
        finally:
            _set_ctx(None)
        work.extend(c.alts)
        if out is not None:
            _set_ctx(c)
            try:
                yield c, out[0], out[1]
            finally:
                _set_ctx(None)
