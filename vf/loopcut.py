r"""R2 — loop cut: mechanical extraction of the fragments of a real function around one of its loops, on every run.

cut(module, qualname, loop_ordinal) reads the function's source from the repository working tree, finds the
loop_ordinal-th top-level `for`/`while` statement of its body and returns three callables compiled from the ORIGINAL
statements (nothing is re-typed; what is dropped: nothing; what is added: the plumbing that passes the local variables
in and out as a dict):

    pre(locals)            the statements before the loop            -> ('fall', locals) | ('return', value, locals)
    body(locals, item)     ONE iteration: target = item; loop body   -> ('fall' | 'break' | 'return', ..., locals)
    post(locals)           the statements after the loop             -> ('return', value, locals) | ('fall', locals)

With them a harness states the classical invariant proof: Inv holds after pre; Inv /\ one iteration from a GENERIC
(havoced, symbolic) state re-establishes Inv; Inv at exit implies the postcondition through post.  Exceptions propagate
as Python exceptions.  If the loop cannot be found (the code changed shape) LoopNotFound is raised and the obligation
is UNDECIDED for that run (never a verdict)."""
import ast
import os
import textwrap

from . import loader


class LoopNotFound(Exception):
    pass


class _Ret(ast.NodeTransformer):
    """return X -> return ('return', X, locals());  continue -> return ('fall', locals());  break -> ('break', locals())
    (only at the nesting level of the fragment: not inside nested function definitions; break/continue not inside inner loops)"""

    def __init__(self):
        self.loop_depth = 0

    def visit_FunctionDef(self, node):
        return node

    visit_AsyncFunctionDef = visit_FunctionDef
    visit_Lambda = visit_FunctionDef

    def visit_Return(self, node):
        val = node.value or ast.Constant(None)
        return ast.copy_location(ast.Return(ast.Tuple([ast.Constant('return'), val, _locals_call()], ast.Load())), node)

    def _loop(self, node):
        self.loop_depth += 1
        self.generic_visit(node)
        self.loop_depth -= 1
        return node

    visit_For = _loop
    visit_While = _loop

    def visit_Continue(self, node):
        if self.loop_depth:
            return node
        return ast.copy_location(ast.Return(ast.Tuple([ast.Constant('fall'), _locals_call()], ast.Load())), node)

    def visit_Break(self, node):
        if self.loop_depth:
            return node
        return ast.copy_location(ast.Return(ast.Tuple([ast.Constant('break'), _locals_call()], ast.Load())), node)


def _locals_call():
    return ast.Call(ast.Name('_vf_locals_', ast.Load()), [ast.Call(ast.Name('locals', ast.Load()), [], [])], [])


def _clean(d):
    out = dict(d.get('_vf_L_', {}))         # names the fragment does not mention are carried through unchanged
    out.update({k: v for k, v in d.items() if not k.startswith('_vf_')})
    return out


def _find_function(tree, qualname):
    node = tree
    for name in qualname.split('.'):
        for ch in ast.iter_child_nodes(node):
            if isinstance(ch, (ast.FunctionDef, ast.ClassDef)) and ch.name == name:
                node = ch
                break
        else:
            raise LoopNotFound(f'{qualname}: {name} not found')
    return node


def _names_stored(stmts):
    out = set()
    for s in stmts:
        for n in ast.walk(s):
            if isinstance(n, ast.Name) and isinstance(n.ctx, (ast.Store, ast.Del)):
                out.add(n.id)
            elif isinstance(n, ast.arg):
                out.add(n.arg)
            elif isinstance(n, ast.alias):
                out.add((n.asname or n.name).split('.')[0])
    return out


def _names_loaded(stmts):
    out = set()
    for s in stmts:
        for n in ast.walk(s):
            if isinstance(n, ast.Name) and isinstance(n.ctx, ast.Load):
                out.add(n.id)
    return out


def _compile_fragment(stmts, module, label, item_target=None, fn_locals=None):
    """def _vf_frag_(_vf_L_[, _vf_item_]):  <locals unpacked>;  [target = item];  stmts;  return ('fall', locals())"""
    stmts = [_Ret().visit(s) for s in stmts]
    used = _names_loaded(stmts) | _names_stored(stmts)
    body = []
    # unpack only names that are present in the incoming locals (others stay unbound, as in the original function)
    unpack = ast.parse(textwrap.dedent('''
        for _vf_k_, _vf_v_ in _vf_L_.items():
            pass
    ''')).body
    fn_args = [ast.arg('_vf_L_')]
    if item_target is not None:
        fn_args.append(ast.arg('_vf_item_'))
    pre = []
    for name in sorted(used):
        if name.startswith('_vf_') or (fn_locals is not None and name not in fn_locals):
            continue
        pre.append(ast.parse(f"if {name!r} in _vf_L_:\n    {name} = _vf_L_[{name!r}]").body[0])
    if item_target is not None:
        pre.append(ast.Assign([item_target], ast.Name('_vf_item_', ast.Load())))
    tail = ast.Return(ast.Tuple([ast.Constant('fall'), _locals_call()], ast.Load()))
    fn = ast.FunctionDef(name='_vf_frag_', args=ast.arguments(posonlyargs=[], args=fn_args, kwonlyargs=[], kw_defaults=[], defaults=[]),
                         body=pre + stmts + [tail], decorator_list=[], type_params=[])
    mod = ast.Module([fn], [])
    ast.fix_missing_locations(mod)
    code = compile(mod, f'<{label}>', 'exec')
    scratch = {}
    module.__dict__['_vf_locals_'] = _clean      # the fragment shares the module's REAL globals (so stubs are seen)
    exec(code, module.__dict__, scratch)
    f = scratch['_vf_frag_']
    return f


def cut(module, qualname, split_after=()):
    """module: the loaded repository module object; qualname: 'func' or 'Class.method'.
    Returns (segments, info): segments is the function body split at its top-level loops, in order:
        ('seg', fn)              fn(locals)            straight-line statements between loops
        ('loop', body, iter_fn)  body(locals, item)    one iteration; iter_fn(locals) evaluates the iterable / the while test"""
    path = module.__file__
    with open(path) as fh:
        src = fh.read()
    tree = ast.parse(src, path)
    if getattr(loader, '_installed', None) == 'symbolic':
        tree = loader._FStr().visit(tree)       # same R1 rewrite as the loaded module
        ast.fix_missing_locations(tree)
    fn = _find_function(tree, qualname)
    stmts = list(fn.body)
    if stmts and isinstance(stmts[0], ast.Expr) and isinstance(stmts[0].value, ast.Constant):
        stmts = stmts[1:]
    label = f'{module.__name__}.{qualname}'
    fn_locals = _names_stored(fn.body) | {a.arg for a in fn.args.args + fn.args.kwonlyargs}
    segments, cur, nloop = [], [], 0
    lines = []
    found_split = set()

    def flush():
        nonlocal cur
        segments.append(('seg', _compile_fragment(cur, module, label + f':seg{len(segments)}', fn_locals=fn_locals)))
        cur = []
    for st in stmts:
        if isinstance(st, (ast.For, ast.While)):
            flush()
            if st.orelse:
                raise LoopNotFound(f'{qualname}: loop with else clause')
            if isinstance(st, ast.For):
                body = _compile_fragment(st.body, module, label + f':loop{nloop}', item_target=st.target, fn_locals=fn_locals)
                e = ast.Expression(st.iter)
            else:
                body = _compile_fragment(st.body, module, label + f':loop{nloop}', fn_locals=fn_locals)
                e = ast.Expression(st.test)
            ast.fix_missing_locations(e)
            code = compile(e, f'<{label}:iter{nloop}>', 'eval')
            segments.append(('loop', body, (lambda L, code=code: eval(code, module.__dict__, dict(L)))))
            lines.append(st.lineno)
            nloop += 1
        else:
            cur.append(st)
            if isinstance(st, ast.Assign) and any(isinstance(t, ast.Name) and t.id in split_after for t in st.targets):
                flush()         # extra cut point after the assignment of a named local (state may be havoced there)
                found_split.add([t.id for t in st.targets if isinstance(t, ast.Name)][0])
    flush()
    for nm in split_after:
        if nm not in found_split:
            raise LoopNotFound(f'{qualname}: no top-level assignment to {nm}')
    info = {'function': label, 'loop_lines': lines, 'params': [a.arg for a in fn.args.args], 'loops': nloop}
    return segments, info


def run_concrete(segments, L):
    """reference interpreter of the cut (used to validate the extraction on concrete inputs): executes the segments
    with real iteration; returns the function result"""
    L = dict(L)
    for sg in segments:
        if sg[0] == 'seg':
            r = sg[1](L)
            if r[0] == 'return':
                return r[1]
            L = r[-1]
        else:
            _, body, it = sg
            for item in it(L):
                r = body(L, item)
                if r[0] == 'return':
                    return r[1]
                L = r[-1]
                if r[0] == 'break':
                    break
    return None


def run_state(segments, L):
    """executes the given leading segments with real iteration and returns the locals reached (no return expected)"""
    L = dict(L)
    for sg in segments:
        if sg[0] == 'seg':
            r = sg[1](L)
            if r[0] == 'return':
                raise LoopNotFound('unexpected return while running leading segments')
            L = dict(r[-1])
        else:
            _, body, it = sg
            for item in it(L):
                r = body(L, item)
                if r[0] == 'return':
                    raise LoopNotFound('unexpected return inside a leading loop')
                L = dict(r[-1])
                if r[0] == 'break':
                    break
    return L
