"""Obligation registry, worlds (symbolic / native), unit runner.

A *harness* is world-agnostic contract text: it sets up a generic pre-state through the World API, calls the REAL
repository function, and states the contract clauses with w.claim(...).  The same harness is
  (i)   proved: executed on proxies, every feasible path explored, every claim sent to the solver;
  (ii)  replayed: executed natively (real bitarray / hashlib) on the solver's counter-model;
  (iii) run as the bounded stand-in: executed natively on enumerated / sampled inputs.
"""
import importlib
import json
import os
import random
import time
import traceback

REGISTRY = {}


class Ob:
    def __init__(self, oid, prop, fn, cases, fuc, kind, tier, descr, budget, samples, assumes, inlined):
        self.id, self.prop, self.fn, self.cases = oid, prop, fn, cases
        self.fuc, self.kind, self.tier, self.descr = list(fuc), kind, tier, descr
        self.budget, self.samples, self.assumes, self.inlined = budget, samples, list(assumes), list(inlined)


def obligation(oid, prop, cases=None, fuc=(), kind='proof', tier='quick', descr='', budget=None, samples=0,
               assumes=(), inlined=()):
    """kind: 'proof'   -> deductive (symbolic world, all paths, all claims);  native sampling only as replay engine
             'bounded' -> native stand-in only (enumeration/sampling), never counted as proved
       cases: list of dicts (exhaustive finite case split; each case is one unit) or None"""
    def deco(fn):
        REGISTRY[oid] = Ob(oid, prop, fn, cases if cases is not None else [{}], fuc, kind, tier,
                           descr or (fn.__doc__ or '').strip(), budget or {}, samples, assumes, inlined)
        return fn
    return deco


class ClaimFailed(Exception):
    pass


class Skip(BaseException):
    """native sampling drew an input outside the precondition"""


# ====================================================================================================================
# worlds
# ====================================================================================================================

class SymWorld:
    symbolic = True

    def __init__(self, c, case):
        self.c, self.case = c, case
        self.claims = []            # (name, status, detail)
        self.inputs = {}            # name -> symbolic thing (for counterexample extraction)
        self.covers = set()

    # ---- inputs ----
    def int(self, name, lo=None, hi=None):
        v = self.c.int(name, lo, hi)
        self.inputs[name] = ('int', v)
        return v

    def bool(self, name):
        v = self.c.bool(name)
        self.inputs[name] = ('bool', v)
        return v

    def bits(self, name, n):
        """opaque bit string of length n (python int or symbolic)"""
        from .bits import Seq, Opq, Buffer, Val
        from .sym import SymInt
        import z3
        if type(n) is int:
            if n == 0:
                return Seq()
            v = z3.Int(name)
            self.c.add(z3.And(v >= 0, v < (1 << n)))
            self.inputs[name] = ('bitsval', n, v)
            return Seq([Val(n, v)])
        buf = Buffer(name, n)
        self.inputs[name] = ('buffer', buf, n)
        return Seq([Opq(buf)])

    def bytes(self, name, n):
        from .bits import SymBytes
        s = self.bits(name, n * 8)
        return SymBytes.make(s)

    def choice(self, name, values):
        """finite choice explored by forking (one path per value)"""
        values = list(values)
        i = self.c.int(name, 0, len(values) - 1)
        self.inputs[name] = ('int', i)
        k = self.c.concretise(i.e, name)
        return values[k]

    # ---- contract clauses ----
    def assume(self, cond):
        self.c.assume(cond)

    def claim(self, name, goal):
        from .sym import Unsupported
        st, detail = self.c.prove(goal)
        if st == 'refuted':
            detail = {'model': detail, 'inputs': self._concrete_inputs()}
        self.claims.append((name, st, detail))

    def cover(self, label):
        self.covers.add(label)

    def _concrete_inputs(self):
        out = {}
        c = self.c
        for name, spec in self.inputs.items():
            try:
                if spec[0] in ('int', 'bool'):
                    out[name] = c.model_eval(spec[1])
                elif spec[0] == 'bitsval':
                    out[name] = {'n': spec[1], 'v': c.model_eval(spec[2])}
                elif spec[0] == 'buffer':
                    buf = spec[1]
                    n = c.model_eval(buf.n)
                    atoms = {}
                    for (a, b), at in buf.fa.items():
                        atoms[f'f{a}:{b}'] = c.model_eval(at)
                    for (a, b), at in buf.ba.items():
                        atoms[f'b{a}:{b}'] = c.model_eval(at)
                    out[name] = {'n': n, 'atoms': atoms}
            except Exception as e:     # model extraction is best effort
                out[name] = f'<{e}>'
        return out

    # ---- adapters ----
    def seq_of(self, ba):
        return ba._s

    def mk_bitarray(self, cls, seq, *args):
        o = cls(*args)
        o._s = seq
        return o

    def eq_seq(self, a, b):
        from .bits import seq_eq
        return seq_eq(a, b)

    def val(self, seq):
        """unsigned value of a bit sequence of concrete width (int or SymInt)"""
        from .sym import mk_int, _z
        return mk_int(_z(seq.value())) if seq.length() else 0

    def bytes_seq(self, b):
        from .bits import to_seq_bytes
        return to_seq_bytes(b)

    def sha256(self, seq):
        from .shims import digest_of
        return digest_of('sha256', seq)

    def uf(self, alg, seq):
        """uninterpreted deterministic function of a byte string (sha256, sha512, crc16, crc32c): callee contracts"""
        from .shims import digest_of
        return digest_of(alg, seq)

    def stub(self, module, name, repl):
        return _Patch(module, name, repl)

    def And(self, *xs):
        from .sym import sym_and
        return sym_and(*xs)

    def Or(self, *xs):
        from .sym import sym_or
        return sym_or(*xs)

    def Not(self, x):
        from .sym import sym_not
        return sym_not(x)

    def Implies(self, a, b):
        from .sym import sym_or, sym_not
        return sym_or(sym_not(a), b)

    def ite(self, c, a, b):
        from .sym import ite
        return ite(c, a, b)

    def tick_count(self, prefix=''):
        return sum(v for k, v in self.c.ticks.items() if k.startswith(prefix))


class _Patch:
    def __init__(self, module, name, repl):
        self.module, self.name, self.repl = module, name, repl

    def __enter__(self):
        m = importlib.import_module(self.module) if isinstance(self.module, str) else self.module
        self.m = m
        self.old = m.__dict__[self.name] if isinstance(m, type(importlib)) else getattr(m, self.name)
        setattr(m, self.name, self.repl)
        return self

    def __exit__(self, *a):
        setattr(self.m, self.name, self.old)


class NativeWorld:
    """concrete execution of a harness: replay of a counter-model, or one sample of the bounded stand-in"""
    symbolic = False

    def __init__(self, case, inputs=None, rng=None):
        self.case, self.given, self.rng = case, inputs or {}, rng
        self.claims = []
        self.used = {}
        self.covers = set()

    def _draw_int(self, lo, hi):
        r = self.rng
        if lo is None and hi is None:
            lo, hi = -(1 << 260), (1 << 260)
        elif lo is None:
            lo = hi - (1 << 260)
        elif hi is None:
            hi = lo + (1 << 260)
        t = r.random()
        if t < 0.15:
            return lo
        if t < 0.3:
            return hi
        if t < 0.5 and hi - lo > 16:
            # near powers of two
            k = r.randrange(1, max(2, (hi - lo).bit_length()))
            v = lo + (1 << k) + r.choice((-1, 0, 1))
            return min(hi, max(lo, v))
        if t < 0.6 and lo < 0 < hi:
            return r.choice((-1, 0, 1))
        return r.randint(lo, hi)

    def int(self, name, lo=None, hi=None):
        if name in self.used and name not in self.given:        # a name denotes ONE value per execution (as in the symbolic world)
            return self.used[name]
        if name in self.given and not isinstance(self.given[name], str):
            v = int(self.given[name])
        elif self.rng is not None:
            v = self._draw_int(lo, hi)
        else:
            v = lo if lo is not None else (hi if hi is not None else 0)
        if (lo is not None and v < lo) or (hi is not None and v > hi):
            raise Skip()
        self.used[name] = v
        return v

    def bool(self, name):
        if name in self.used and name not in self.given:
            return self.used[name]
        if name in self.given:
            v = bool(self.given[name])
        elif self.rng is not None:
            v = self.rng.random() < 0.5
        else:
            v = False
        self.used[name] = v
        return v

    def bits(self, name, n):
        from .bits import Seq
        n = int(n)
        g = self.given.get(name)
        if g is None and isinstance(self.used.get(name), dict) and self.used[name].get('n') == n:
            g = self.used[name]
        val = 0
        if isinstance(g, dict) and 'v' in g:
            val = int(g['v']) & ((1 << n) - 1) if n else 0        # a value re-used from an execution with another width is cut to size
        elif isinstance(g, dict) and 'atoms' in g:
            for k, v in g['atoms'].items():
                a, b = map(int, k[1:].split(':'))
                if k[0] == 'f':
                    lo, hi = a, b
                else:
                    lo, hi = n - b, n - a
                if 0 <= lo and hi <= n:
                    val |= int(v) << (n - hi)
        elif self.rng is not None and n:
            t = self.rng.random()
            val = 0 if t < 0.1 else ((1 << n) - 1 if t < 0.2 else self.rng.getrandbits(n))
        self.used[name] = {'n': n, 'v': val}
        return Seq.from_int(val, n) if n else Seq()

    def bytes(self, name, n):
        s = self.bits(name, int(n) * 8)
        n = int(n)
        return s.value().to_bytes(n, 'big') if n else b''

    def choice(self, name, values):
        values = list(values)
        if name in self.used and name not in self.given:
            return values[self.used[name]]
        if name in self.given:
            k = int(self.given[name])
        elif self.rng is not None:
            k = self.rng.randrange(len(values))
        else:
            k = 0
        self.used[name] = k
        return values[k]

    def assume(self, cond):
        if not cond:
            raise Skip()

    def claim(self, name, goal):
        ok = bool(goal)
        self.claims.append((name, 'proved' if ok else 'refuted', None))

    def cover(self, label):
        self.covers.add(label)

    def seq_of(self, ba):
        from .bits import Seq
        return Seq.from_01(ba.to01())

    def mk_bitarray(self, cls, seq, *args):
        o = cls(*args)
        n = seq.length()
        if n:
            import bitarray as _b
            _b.bitarray.extend(o, format(seq.value(), f'0{n}b'))
        return o

    def eq_seq(self, a, b):
        from .bits import seq_eq
        return seq_eq(a, b)

    def val(self, seq):
        return seq.value() if seq.length() else 0

    def bytes_seq(self, b):
        from .bits import Seq
        return Seq.from_bytes(bytes(b))

    def sha256(self, seq):
        import hashlib
        n = seq.length()
        return hashlib.sha256(seq.value().to_bytes(n // 8, 'big') if n else b'').digest()

    def uf(self, alg, seq):
        import hashlib
        from .spec import crc as _crc
        n = seq.length()
        data = seq.value().to_bytes(n // 8, 'big') if n else b''
        if alg == 'crc16':
            return _crc.crc16_xmodem(data)
        if alg == 'crc32c':
            return _crc.crc32c(data)
        return getattr(hashlib, alg)(data).digest()

    def stub(self, module, name, repl):
        return _NoPatch()

    def And(self, *xs):
        return all(bool(x) for x in xs)

    def Or(self, *xs):
        return any(bool(x) for x in xs)

    def Not(self, x):
        return not x

    def Implies(self, a, b):
        return (not a) or bool(b)

    def ite(self, c, a, b):
        return a if c else b

    def tick_count(self, prefix=''):
        from . import loader
        return sum(v for k, v in loader.GLOBAL_TICKS.items() if k.startswith(prefix))


class _NoPatch:
    def __enter__(self):
        return self

    def __exit__(self, *a):
        return False


# ====================================================================================================================
# running one unit (obligation x case)
# ====================================================================================================================

def load_harness(prop):
    importlib.import_module(f'harness.{prop}')


def run_symbolic_unit(oid, case_idx, tier):
    """explore all paths, prove all claims.  returns a JSON-able dict"""
    from . import sym
    from .sym import explore, Unsupported, PathBudget
    ob = REGISTRY[oid]
    case = ob.cases[case_idx]
    t0 = time.time()
    sym.CVC5_SAMPLE[0] = int(os.environ.get('VERIF_CVC5_EVERY', '8')) if tier == 'thorough' else 0
    res = {'oid': oid, 'case': case, 'case_idx': case_idx, 'paths': 0, 'claims': 0, 'proved': 0, 'solver_s': 0.0,
           'checks': 0, 'status': None, 'undecided': [], 'refuted': [], 'canary': None, 'covers': [],
           'sample_vc': None}
    covers = set()

    def body(c):
        w = SymWorld(c, case)
        ob.fn(w, **case)
        return w

    try:
        budget = dict(max_paths=ob.budget.get('paths', 20000), max_seconds=ob.budget.get('seconds', 240),
                      timeout_ms=ob.budget.get('timeout_ms', 10000))
        # global wall-clock budget of the deductive phase of this run (set by the driver): a unit that starts after the deadline,
        # or runs into it, is UNDECIDED (its native stand-in decides) - the check always ends with a verdict in bounded time
        import os as _os
        import time as _time
        _dl = float(_os.environ.get('VERIF_DEADLINE', '0') or 0)
        if _dl:
            budget['max_seconds'] = max(1, min(budget['max_seconds'], _dl - _time.time()))
        for c, kind, out in explore(body, **budget):
            res['paths'] += 1
            res['solver_s'] += c.solver_s
            res['checks'] += c.n_checks
            if kind == 'unsupported':
                res['undecided'].append({'reason': f'unsupported: {out}', 'path': _pc(c)})
                continue
            if kind == 'raise':
                # an exception escaping the harness itself: the harness is expected to catch what the contract allows
                tb = ''.join(traceback.format_exception(type(out), out, out.__traceback__)[-6:])
                res['refuted'].append({'claim': 'no-unexpected-exception', 'exception': f'{type(out).__name__}: {out}',
                                       'trace': tb, 'path': _pc(c), 'inputs': _inputs_from_ctx(c), 'model': None})
                continue
            w = out
            covers |= w.covers
            for name, st, detail in w.claims:
                res['claims'] += 1
                if st == 'proved':
                    res['proved'] += 1
                elif st == 'refuted':
                    res['refuted'].append({'claim': name, 'path': _pc(c), 'inputs': detail['inputs'],
                                           'model': _short_model(detail['model'])})
                else:
                    res['undecided'].append({'reason': f'claim {name}: {detail}', 'path': _pc(c)})
            if w.claims and res['canary'] is None:
                sym._set_ctx(c)
                st, _ = c.prove(False)
                res['canary'] = (st == 'refuted')
                if res['sample_vc'] is None:
                    res['sample_vc'] = {'path_condition': _pc(c)[:12], 'claims': [n for n, _, _ in w.claims][:8]}
    except PathBudget as e:
        res['undecided'].append({'reason': str(e), 'path': []})
    except Exception as e:
        res['status'] = 'ERROR'
        res['error'] = traceback.format_exc()
    res['covers'] = sorted(covers)
    res['wall_s'] = time.time() - t0
    res['cvc5'] = {k: v for k, v in sym.CVC5_STATS.items() if k != 'seen'}
    for k in list(sym.CVC5_STATS):
        if k != 'seen':
            del sym.CVC5_STATS[k]
    if res['cvc5'].get('sat'):
        res['status'] = 'ERROR'
        res['error'] = f"back-end disagreement: cvc5 says sat on a VC z3 proved: {res['cvc5'].get('disagreements')}"
    if res['status'] is None:
        if res['refuted']:
            res['status'] = 'REFUTED'
        elif res['undecided']:
            res['status'] = 'UNDECIDED'
        elif res['claims'] == 0:
            res['status'] = 'ERROR'
            res['error'] = 'vacuous: no claim was reached on any path'
        elif res['canary'] is not True:
            res['status'] = 'ERROR'
            res['error'] = 'vacuity canary: false claim was not refuted'
        else:
            res['status'] = 'DISCHARGED'
    res['refuted'] = res['refuted'][:5]
    res['undecided'] = res['undecided'][:5]
    return res


def _inputs_from_ctx(c):
    try:
        if c._check() == __import__('z3').sat:
            return {'<model>': _short_model(c._model_dict())}
    except Exception:
        pass
    return {}


def _pc(c):
    return [str(x)[:300] for x in c.pc[:40]]


def _short_model(m):
    if not m:
        return m
    return {k: (v if not isinstance(v, int) or abs(v) < (1 << 70) else hex(v)) for k, v in list(m.items())[:60]}


def run_native_once(oid, case_idx, inputs=None, seed=None):
    """one native execution of the harness; returns dict(ok, failed_claims, used, skipped, error)"""
    ob = REGISTRY[oid]
    case = ob.cases[case_idx]
    rng = random.Random(seed) if seed is not None else None
    w = NativeWorld(case, inputs, rng)
    if seed is not None:
        w.used['_seed'] = seed
    try:
        ob.fn(w, **case)
    except Skip:
        return {'ok': True, 'skipped': True, 'used': w.used, 'failed': [], 'nclaims': 0}
    except BaseException as e:
        from .sym import Unsupported
        from . import loader as _ld
        if not isinstance(e, (Exception, Unsupported, _ld.TickCap)):
            raise
        # natively, a contract that cannot even be evaluated on the result (a decoder of the harness running off the end of a
        # malformed encoding, a run-away cut by the tick cap) is a failed contract, with the input recorded
        tb = ''.join(traceback.format_exception(type(e), e, e.__traceback__)[-6:])
        return {'ok': False, 'skipped': False, 'used': w.used, 'failed': [f'no-unexpected-exception: {type(e).__name__}: {e}'],
                'trace': tb, 'nclaims': len(w.claims)}
    failed = [n for n, st, _ in w.claims if st != 'proved']
    return {'ok': not failed, 'skipped': False, 'used': w.used, 'failed': failed, 'nclaims': len(w.claims),
            'covers': sorted(w.covers)}


def run_native_unit(oid, case_idx, tier, seed):
    import sys as _sys
    _sys.set_int_max_str_digits(0)
    """bounded stand-in: sample (or enumerate) inputs natively. returns dict"""
    ob = REGISTRY[oid]
    n = ob.samples if tier == 'quick' else ob.samples * 5
    t0 = time.time()
    res = {'oid': oid, 'case': ob.cases[case_idx], 'case_idx': case_idx, 'evaluations': 0, 'skipped': 0,
           'distinct': 0, 'failures': [], 'status': None, 'sample': None, 'covers': []}
    seen = set()
    covers = set()
    base = (seed * 1000003 + hash((oid, case_idx)) % 1000003) & 0x7fffffff
    try:
        for i in range(max(1, n)):
            r = run_native_once(oid, case_idx, None, base + i)
            if r.get('skipped'):
                res['skipped'] += 1
                continue
            res['evaluations'] += 1
            key = json.dumps(r['used'], sort_keys=True, default=str)
            if key not in seen:
                seen.add(key)
            covers |= set(r.get('covers', []))
            if res['sample'] is None:
                res['sample'] = r['used']
            if not r['ok']:
                res['failures'].append({'inputs': r['used'], 'failed': r['failed'], 'trace': r.get('trace')})
                if len(res['failures']) >= 3:
                    break
    except Exception:
        res['status'] = 'ERROR'
        res['error'] = traceback.format_exc()
    res['distinct'] = len(seen)
    res['covers'] = sorted(covers)
    res['wall_s'] = time.time() - t0
    if res['status'] is None:
        res['status'] = 'FAILED' if res['failures'] else 'PASSED'
    return res


def run_native_chain(oid, case_idx, n, seed):
    """history stand-in for a deductive obligation: n native executions IN A ROW in one process; every second one re-uses a random
    half of the previous execution's input values (the part a cache might be keyed on) and draws the rest afresh.  A contract that
    fails on a later execution although each execution alone satisfies it shows state carried between calls."""
    import sys as _sys
    _sys.set_int_max_str_digits(0)
    ob = REGISTRY[oid]
    case = ob.cases[case_idx]
    res = {'oid': oid, 'case': case, 'case_idx': case_idx, 'evaluations': 0, 'skipped': 0, 'distinct': 0, 'failures': [],
           'status': None, 'sample': None, 'covers': [], 'chain': True}
    base = (seed * 9176 + hash((oid, case_idx, 'chain')) % 1000003) & 0x7fffffff
    prev = None
    t0 = time.time()
    for j in range(n):
        rng = random.Random(base + j)
        given = None
        if prev is not None and j % 2 == 1:
            given = {k: v for k, v in prev.items() if not k.startswith('_') and rng.random() < 0.5}
        r = run_native_once(oid, case_idx, given, base + j)
        if r.get('skipped'):
            res['skipped'] += 1
            continue
        res['evaluations'] += 1
        prev = r['used']
        if res['sample'] is None:
            res['sample'] = r['used']
        if not r['ok']:
            res['failures'].append({'inputs': r['used'], 'failed': [f'(execution {j + 1} of a chain in one process) ' + x for x in r['failed']],
                                    'trace': r.get('trace')})
            break
        if time.time() - t0 > 20:
            break
    res['distinct'] = res['evaluations']
    res['wall_s'] = time.time() - t0
    res['status'] = 'FAILED' if res['failures'] else 'PASSED'
    return res
