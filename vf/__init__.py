import sys as _sys

_sys.set_int_max_str_digits(0)        # 65 540-byte symbolic strings are 500 000-bit integers in the solver interface
