"""Conformance of the trusted models against the real libraries (bounded, seeded, reported in every evidence file).

T1: the segment-list model of bitarray vs the real C extension on random concrete operation sequences.
loader: the rewritten+shadowed package (R1, shadow builtins, module shims) vs the natively imported package on a
        fixed corpus of concrete inputs (run in a subprocess, since a process is either one world or the other).
"""
import json
import os
import random
import subprocess
import sys
import hashlib


def _model_vs_real(seed, rounds=300):
    import bitarray as rb
    from bitarray.util import int2ba as r_int2ba, ba2int as r_ba2int
    from vf import bits as mb
    rng = random.Random(seed)
    failures = []
    nops = 0

    def rnd01(n):
        return ''.join(rng.choice('01') for _ in range(n))

    for _ in range(rounds):
        s0 = rnd01(rng.randrange(0, 40))
        r = rb.bitarray(s0)
        m = mb.bitarray(s0)
        log = [('init', s0)]
        for _ in range(12):
            op = rng.choice(['extend', 'append', 'frombytes', 'get', 'getneg', 'slice', 'delslice', 'delitem', 'pop0',
                             'tobytes', 'fill', 'copy', 'len', 'bool', 'i2b', 'b2i', 'eq', 'extend_list', 'init_copy',
                             'sliceneg'])
            nops += 1
            try:
                if op == 'extend':
                    x = rnd01(rng.randrange(0, 20))
                    r.extend(x), m.extend(x)
                    log.append((op, x))
                elif op == 'extend_list':
                    x = [rng.randrange(2) for _ in range(rng.randrange(0, 5))]
                    r.extend(x), m.extend(x)
                    log.append((op, x))
                elif op == 'append':
                    x = rng.choice([0, 1, True, False])
                    r.append(x), m.append(x)
                    log.append((op, x))
                elif op == 'frombytes':
                    x = bytes(rng.randrange(256) for _ in range(rng.randrange(0, 4)))
                    r.frombytes(x), m.frombytes(x)
                    log.append((op, x.hex()))
                elif op in ('get', 'getneg'):
                    i = rng.randrange(0, 45) * (-1 if op == 'getneg' else 1)
                    log.append((op, i))
                    a = b = None
                    try:
                        a = r[i]
                    except IndexError:
                        a = 'IndexError'
                    try:
                        b = m[i]
                    except IndexError:
                        b = 'IndexError'
                    if a != b:
                        failures.append((log[:], a, b))
                elif op in ('slice', 'sliceneg'):
                    i = rng.choice([None, rng.randrange(0, 45)])
                    j = rng.choice([None, rng.randrange(0, 45)])
                    if op == 'sliceneg' and j is not None:
                        j = -j
                    log.append((op, i, j))
                    if r[i:j].to01() != m[i:j].to01():
                        failures.append((log[:], r[i:j].to01(), m[i:j].to01()))
                elif op == 'delslice':
                    i = rng.choice([None, rng.randrange(0, 45)])
                    j = rng.choice([None, rng.randrange(0, 45)])
                    log.append((op, i, j))
                    del r[i:j]
                    del m[i:j]
                elif op == 'delitem':
                    i = rng.randrange(-45, 45)
                    log.append((op, i))
                    ea = eb = None
                    try:
                        del r[i]
                    except IndexError:
                        ea = 'IndexError'
                    try:
                        del m[i]
                    except IndexError:
                        eb = 'IndexError'
                    if ea != eb:
                        failures.append((log[:], ea, eb))
                elif op == 'pop0':
                    log.append((op,))
                    ea = eb = None
                    try:
                        ea = r.pop(0)
                    except IndexError:
                        ea = 'IndexError'
                    try:
                        eb = m.pop(0)
                    except IndexError:
                        eb = 'IndexError'
                    if ea != eb:
                        failures.append((log[:], ea, eb))
                elif op == 'tobytes':
                    log.append((op,))
                    if r.tobytes() != m.tobytes():
                        failures.append((log[:], r.tobytes(), m.tobytes()))
                elif op == 'fill':
                    log.append((op,))
                    if r.fill() != m.fill():
                        failures.append((log[:], 'fill-return'))
                elif op == 'copy':
                    log.append((op,))
                    r2, m2 = r.copy(), m.copy()
                    r2.append(1), m2.append(1)
                    if r2.to01() != m2.to01():
                        failures.append((log[:], 'copy'))
                elif op == 'init_copy':
                    log.append((op,))
                    r2, m2 = rb.bitarray(r), mb.bitarray(m)
                    r2.append(0), m2.append(0)
                    if r2.to01() != m2.to01() or r.to01() != m.to01():
                        failures.append((log[:], 'init_copy'))
                elif op == 'len':
                    if len(r) != len(m):
                        failures.append((log[:], len(r), len(m)))
                elif op == 'bool':
                    if bool(r) != bool(m):
                        failures.append((log[:], 'bool'))
                elif op == 'eq':
                    x = rnd01(len(r)) if rng.random() < 0.5 else r.to01()
                    if (r == rb.bitarray(x)) != bool(m == mb.bitarray(x)):
                        failures.append((log[:], 'eq'))
                elif op == 'i2b':
                    n = rng.randrange(-2, 70)
                    v = rng.choice([rng.randrange(-(1 << 66), 1 << 66), rng.randrange(-300, 300), (1 << max(n, 0)) - 1,
                                    1 << max(n - 1, 0), -(1 << max(n - 1, 0)), -(1 << max(n - 1, 0)) - 1, 1 << max(n, 0)])
                    sg = rng.random() < 0.5
                    log.append((op, v, n, sg))
                    ea = eb = None
                    try:
                        ea = r_int2ba(v, n, signed=sg).to01()
                    except (OverflowError, ValueError) as e:
                        ea = type(e).__name__
                    try:
                        eb = mb.int2ba(v, n, signed=sg).to01()
                    except (OverflowError, ValueError) as e:
                        eb = type(e).__name__
                    if ea != eb:
                        failures.append((log[:], ea, eb))
                elif op == 'b2i':
                    sg = rng.random() < 0.5
                    log.append((op, sg))
                    ea = eb = None
                    try:
                        ea = r_ba2int(r, signed=sg)
                    except ValueError:
                        ea = 'ValueError'
                    try:
                        eb = mb.ba2int(m, signed=sg)
                    except ValueError:
                        eb = 'ValueError'
                    if ea != eb:
                        failures.append((log[:], ea, eb))
            except Exception as e:      # an exception on one side only is a conformance failure
                failures.append((log[:], f'{type(e).__name__}: {e}'))
            if r.to01() != m.to01():
                failures.append((log[:], r.to01(), m.to01()))
            if len(failures) > 3:
                break
        if len(failures) > 3:
            break
    # SymBytes on concrete contents vs bytes: ordering (equal lengths), concatenation, slicing, reversal, hex, int conversion
    from vf.bits import SymBytes, Seq
    for _ in range(rounds):
        n = rng.randrange(0, 6)
        a = bytes(rng.randrange(256) for _ in range(n))
        b = bytes(rng.choice([x, rng.randrange(256)]) for x in a)
        ma, mbb = SymBytes.make(Seq.from_bytes(a)), SymBytes.make(Seq.from_bytes(b))
        nops += 1
        try:
            for opn, f in (('<', lambda x, y: x < y), ('<=', lambda x, y: x <= y), ('>', lambda x, y: x > y), ('>=', lambda x, y: x >= y),
                           ('==', lambda x, y: x == y)):
                got = f(ma, mbb)
                got = bool(got) if isinstance(got, bool) else None
                if got is not None and got != f(a, b):
                    failures.append(('symbytes', opn, a.hex(), b.hex()))
            i, j = sorted((rng.randrange(0, n + 1), rng.randrange(0, n + 1)))
            for what, x, y in (('add', (ma + mbb), a + b), ('slice', ma[i:j], a[i:j]), ('rev', ma[::-1], a[::-1])):
                xs = x.seq if hasattr(x, 'seq') else Seq.from_bytes(bytes(x))
                if xs.length() != 8 * len(y) or (len(y) and xs.value() != int.from_bytes(y, 'big')):
                    failures.append(('symbytes', what, a.hex(), b.hex()))
        except Exception as e:           # an op outside the model's fragment is loud, not wrong
            if type(e).__name__ != 'Unsupported':
                failures.append(('symbytes', type(e).__name__, str(e)[:80]))
    return nops, failures


def corpus():
    """fixed concrete corpus exercised through the repository API; returns a digest of all observable results"""
    out = []
    from pytoniq_core.boc.builder import Builder
    from pytoniq_core.boc.cell import Cell
    from pytoniq_core.boc.slice import Slice
    from pytoniq_core.boc.address import Address
    from pytoniq_core.boc.hashmap.hashmap import HashMap
    from pytoniq_core.crypto.crc import crc16, crc32c
    rng = random.Random(7)
    cells = []

    def guarded(fn):
        try:
            fn()
        except Exception as e:      # the same exception must then occur in both worlds
            out.append(f'{fn.__name__}: {type(e).__name__}')

    def sec_cells():
        for i in range(40):
            b = Builder()
            for _ in range(rng.randrange(0, 6)):
                n = rng.randrange(1, 65)
                b.store_uint(rng.getrandbits(n), n)
            b.store_int(-rng.getrandbits(20), 33)
            b.store_coins(rng.getrandbits(rng.randrange(0, 100)))
            for _ in range(rng.randrange(0, min(4, len(cells)) + 1)):
                b.store_ref(rng.choice(cells))
            if rng.random() < 0.3:
                b.store_address(Address((rng.choice([0, -1]), bytes(rng.getrandbits(8) for _ in range(32)))))
            c = b.end_cell()
            cells.append(c)
            out.append(c.hash.hex())

    def sec_boc():
        root = cells[-1]
        for opts in [dict(), dict(has_idx=True), dict(hash_crc32=True), dict(has_idx=True, hash_crc32=True, has_cache_bits=True)]:
            boc = root.to_boc(**opts)
            out.append(hashlib.sha256(boc).hexdigest())
            back = Cell.one_from_boc(boc)
            out.append(back.hash.hex())
            s = Slice.one_from_boc(boc.hex())
            out.append(str(s.remaining_bits))

    def sec_addr():
        a = Address((-1, bytes(range(32))))
        for uf in (True, False):
            for us in (True, False):
                for bn in (True, False):
                    t = a.to_str(uf, us, bn, False)
                    out.append(t)
                    out.append(Address(t).to_str(False))

    def sec_hashmap():
        hm = HashMap(32).with_uint_values(16)
        for k in range(0, 200, 7):
            hm.set_int_key(k * 7919 % (1 << 32), k)
        d = hm.serialize()
        out.append(d.hash.hex())
        parsed = HashMap.parse(d.begin_parse(), 32, None, lambda s: s.load_uint(16))
        out.append(json.dumps(sorted(parsed.items())))

    def sec_crc():
        out.append(crc16(b'123456789').hex() + crc32c(b'123456789').hex())

    def sec_tl():
        from pytoniq_core.tl.generator import TlGenerator
        sch = TlGenerator.with_default_schemas().generate()
        ser = sch.serialize(sch.get_by_name('tonNode.blockIdExt'), {'workchain': -1, 'shard': -(1 << 63), 'seqno': 5,
                                                                       'root_hash': '11' * 32, 'file_hash': '22' * 32})
        out.append(ser.hex())
        out.append(json.dumps(sch.deserialize(ser)[0], sort_keys=True))

    for sec in (sec_cells, sec_boc, sec_addr, sec_hashmap, sec_crc, sec_tl):
        guarded(sec)
    return hashlib.sha256('\n'.join(out).encode()).hexdigest(), len(out)


def _shadow_world_corpus():
    """executed in a subprocess: rewritten + shadowed package over the REAL bitarray"""
    from vf import loader, shims
    import sys as _s
    f = loader._Finder(shims.SHADOWS, shims.MODULE_SHIMS, True)
    loader._purge()
    _s.meta_path.insert(0, f)
    d, n = corpus()
    print(json.dumps({'digest': d, 'n': n}))


def run(seed):
    nops, failures = _model_vs_real(seed)
    res = {'ok': not failures, 'model_ops_compared': nops, 'failures': [repr(f)[:600] for f in failures[:3]]}
    try:
        d_native, n = corpus()
        root = os.path.dirname(os.path.dirname(os.path.abspath(__file__)))
        p = subprocess.run([sys.executable, '-c', 'from vf import conformance; conformance._shadow_world_corpus()'],
                           cwd=root, capture_output=True, text=True, timeout=300,
                           env=dict(os.environ, PYTHONPATH=root))
        if p.returncode != 0:
            res['ok'] = False
            res['failures'].append('loader corpus subprocess failed: ' + p.stderr[-1500:])
        else:
            d_shadow = json.loads(p.stdout.strip().splitlines()[-1])
            res['loader_corpus_results'] = n
            res['loader_equal'] = d_shadow['digest'] == d_native
            if not res['loader_equal']:
                res['ok'] = False
                res['failures'].append('loader conformance: rewritten package differs from native on the corpus')
    except Exception as e:
        res['ok'] = False
        res['failures'].append(f'loader conformance crashed: {type(e).__name__}: {e}')
    return res


if __name__ == '__main__':
    sys.path.insert(0, os.environ.get('VERIF_REPO', '/repo'))
    print(run(0))
