"""Bit-at-a-time definitions of CRC-16/XMODEM and CRC-32C (from the property statement: polynomial, init, xorout,
reflection).  Written independently of the library (no tables)."""


def crc16_xmodem_step(crc: int, byte: int) -> int:
    """poly 0x1021, MSB first: the byte is xored into the top of the register, then eight shift rounds"""
    crc ^= byte << 8
    for _ in range(8):
        if crc & 0x8000:
            crc = ((crc << 1) ^ 0x1021) & 0xFFFF
        else:
            crc = (crc << 1) & 0xFFFF
    return crc


def crc16_xmodem(data: bytes) -> bytes:
    crc = 0
    for b in data:
        crc = crc16_xmodem_step(crc, b)
    return crc.to_bytes(2, 'big')


def crc32c_step(crc: int, byte: int) -> int:
    """reflected poly 0x82F63B78, LSB first"""
    crc ^= byte
    for _ in range(8):
        if crc & 1:
            crc = (crc >> 1) ^ 0x82F63B78
        else:
            crc >>= 1
    return crc


def crc32c(data: bytes, byteorder='little') -> bytes:
    crc = 0xFFFFFFFF
    for b in data:
        crc = crc32c_step(crc, b)
    return (crc ^ 0xFFFFFFFF).to_bytes(4, byteorder)


# ---- the same step functions over z3 bit-vectors (width W), used by the step lemma --------------------------------

def bv_crc16_step(z3, crc, byte):
    W = crc.size()
    crc = crc ^ (byte << 8)
    for _ in range(8):
        top = z3.Extract(15, 15, crc) == 1
        sh = (crc << 1) & z3.BitVecVal(0xFFFF, W)
        crc = z3.If(top, sh ^ z3.BitVecVal(0x1021, W), sh)
    return crc


def bv_crc32c_step(z3, crc, byte):
    W = crc.size()
    crc = crc ^ byte
    for _ in range(8):
        low = z3.Extract(0, 0, crc) == 1
        sh = z3.LShR(crc, 1)
        crc = z3.If(low, sh ^ z3.BitVecVal(0x82F63B78, W), sh)
    return crc
