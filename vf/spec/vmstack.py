"""VmStack / VmStackValue / VmTuple / VmCont encodings from block.tlb (vm_stk_*, vm_tuple_*, vm_tupref_*, vmc_*), independent
of the library.  An encoding is a tree node (bits: Seq, refs: [node]); values are described by small tagged tuples:
   ('null',) ('int', v) ('nan',) ('cell', obj) ('slice', bits Seq, [ref objs]) ('builder', bits Seq, [ref objs])
   ('tuple', [values]) ('cont', kind, fields...)
integer form (StackEntry::serialize): tinyint#01 int64 iff the value fits a signed 64-bit integer, else int#0201_ int257."""
from vf.bits import Seq
from vf.spec import enc as E


class Node:
    def __init__(self, bits, refs=()):
        self.bits, self.refs = bits, list(refs)


class Raw:
    """a reference to an existing cell object (compared by identity / hash, not re-encoded)"""

    def __init__(self, obj):
        self.obj = obj


def fits64(w, v):
    return w.And(v >= -(1 << 63), v < (1 << 63))


def value(w, v, tiny=None):
    """tiny: for ints, whether the 64-bit form applies (concrete bool decided by the caller's case split)"""
    k = v[0]
    if k == 'null':
        return Node(E.lit('00000000'))
    if k == 'nan':
        return Node(E.lit('0000001011111111'))
    if k == 'int':
        if tiny:
            return Node(E.lit('00000001') + E.int_(v[1], 64))
        return Node(E.lit('000000100000000') + E.int_(v[1], 257))
    if k == 'cell':
        return Node(E.lit('00000011'), [Raw(v[1])])
    if k == 'builder':
        return Node(E.lit('00000101'), [Node(v[1], [Raw(r) for r in v[2]])])
    if k == 'slice':
        # _ cell:^Cell st_bits:(## 10) end_bits:(## 10) st_ref:(#<= 4) end_ref:(#<= 4)   (#<= 4 is 3 bits)
        n = v[1].length()
        return Node(E.lit('00000100') + E.uint(0, 10) + E.uint(n, 10) + E.uint(0, 3) + E.uint(len(v[2]), 3),
                    [Node(v[1], [Raw(r) for r in v[2]])])
    if k == 'tuple':
        items = v[1]
        t = vm_tuple(w, items, v[2] if len(v) > 2 else None)
        return Node(E.lit('00000111') + E.uint(len(items), 16) + t.bits, t.refs)
    if k == 'cont':
        c = cont(w, v[1:])
        return Node(E.lit('00000110') + c.bits, c.refs)
    raise ValueError(k)


def vm_tuple(w, items, tiny=None):
    """vm_tuple_nil$_ = VmTuple 0;  vm_tuple_tcons$_ head:(VmTupleRef n) tail:^VmStackValue = VmTuple (n+1)"""
    if not items:
        return Node(Seq())
    tl = tiny or [None] * len(items)
    head = vm_tupref(w, items[:-1], tl[:-1])
    return Node(head.bits, head.refs + [value(w, items[-1], tl[-1])])


def vm_tupref(w, items, tiny):
    """vm_tupref_nil$_ = VmTupleRef 0; vm_tupref_single$_ entry:^VmStackValue = VmTupleRef 1;
       vm_tupref_any$_ ref:^(VmTuple (n+2)) = VmTupleRef (n+2)"""
    if not items:
        return Node(Seq())
    if len(items) == 1:
        return Node(Seq(), [value(w, items[0], tiny[0])])
    return Node(Seq(), [vm_tuple(w, items, tiny)])


def stack(w, items, tiny=None):
    """vm_stack#_ depth:(## 24) stack:(VmStackList depth);  vm_stk_cons rest:^(VmStackList n) tos:VmStackValue"""
    tl = tiny or [None] * len(items)
    lst = stack_list(w, items, tl)
    return Node(E.uint(len(items), 24) + lst.bits, lst.refs)


def stack_list(w, items, tiny):
    if not items:
        return Node(Seq())
    rest = stack_list(w, items[:-1], tiny[:-1])
    tos = value(w, items[-1], tiny[-1])
    return Node(tos.bits, [rest] + tos.refs)


CONT_TAGS = {'vmc_quit': '1000', 'vmc_quit_exc': '1001', 'vmc_repeat': '10100', 'vmc_until': '110000', 'vmc_again': '110001',
             'vmc_while_cond': '110010', 'vmc_while_body': '110011', 'vmc_pushint': '1111'}


def cont(w, c):
    kind = c[0]
    f = c[1] if len(c) > 1 else {}
    tag = E.lit(CONT_TAGS[kind])
    sub = lambda name: cont(w, f[name])
    if kind == 'vmc_quit':
        return Node(tag + E.int_(f['exit_code'], 32))
    if kind == 'vmc_quit_exc':
        return Node(tag)
    if kind == 'vmc_repeat':
        return Node(tag + E.uint(f['count'], 63), [sub('body'), sub('after')])
    if kind == 'vmc_until':
        return Node(tag, [sub('body'), sub('after')])
    if kind == 'vmc_again':
        return Node(tag, [sub('body')])
    if kind in ('vmc_while_cond', 'vmc_while_body'):
        return Node(tag, [sub('cond'), sub('body'), sub('after')])
    if kind == 'vmc_pushint':
        return Node(tag + E.int_(f['value'], 32), [sub('next')])
    raise ValueError(kind)


def matches(w, cell, node):
    """conjunction: the real cell has exactly the node's bits and references (recursively)"""
    if isinstance(node, Raw):
        return cell is node.obj or (getattr(cell, 'hash', None) is not None and cell.hash == node.obj.hash)
    conj = [w.eq_seq(w.seq_of(cell.bits), node.bits), len(cell.refs) == len(node.refs)]
    if len(cell.refs) == len(node.refs):
        for c, n in zip(cell.refs, node.refs):
            conj.append(matches(w, c, n))
    return w.And(*conj)


def build(w, node):
    """a real library cell for a node (to feed the parser with specification encodings)"""
    from pytoniq_core.boc.cell import Cell
    from pytoniq_core.boc.tvm_bitarray import TvmBitarray
    if isinstance(node, Raw):
        return node.obj
    return Cell(w.mk_bitarray(TvmBitarray, node.bits, 1023), [build(w, r) for r in node.refs])
