"""TON bag-of-cells wire format (crypto/tl/boc.tlb, boc.cpp rules), written independently of the library.

  serialized_boc#b5ee9c72 has_idx:(## 1) has_crc32c:(## 1) has_cache_bits:(## 1) flags:(## 2) {flags = 0} size:(## 3) {size <= 4}
     off_bytes:(## 8) {off_bytes <= 8} cells:(##(size*8)) roots:(##(size*8)) {roots >= 1} absent:(##(size*8))
     tot_cells_size:(##(off_bytes*8)) root_list:(roots * ##(size*8)) index:has_idx?(cells * ##(off_bytes*8))
     cell_data:(tot_cells_size * [uint8]) crc32c:has_crc32c?uint32
  serialized_boc_idx#68ff65f3 size:(## 8) off_bytes:(## 8) cells roots {roots = 1} absent tot_cells_size index cell_data
  serialized_boc_idx_crc32c#acc3a728 ... crc32c:uint32            (no root list: the root is cell 0; index always present)
  index entry i = end offset of cell i in cell_data (cumulative), times 2 plus a cache bit when has_cache_bits
  crc32c (little-endian) over everything before it
  cell: d1 d2 [stored hashes (level+1)*32, depths (level+1)*2 when d1 & 16] data refs*size ; refs point to LATER cells

Two parts: a polymorphic encoder over vf.bits.Seq (symbolic fields) and a strict native decoder/encoder used as the
oracle of the bounded stand-ins."""
import hashlib
from vf.bits import Seq
from vf.spec import enc as E
from vf.spec import crc as CRC

MAGIC = {'generic': 'b5ee9c72', 'idx': '68ff65f3', 'idx_crc': 'acc3a728'}


def header(kind, size, off, cells, roots, absent, tot, root_list=None, has_idx=False, has_crc=False, has_cache=False):
    """all count fields may be symbolic (SymInt); size/off concrete. Returns Seq of the header up to and including the
    root list (generic) / tot_cells_size (legacy)"""
    s = Seq.from_bytes(bytes.fromhex(MAGIC[kind]))
    if kind == 'generic':
        s = s + E.uint((128 if has_idx else 0) + (64 if has_crc else 0) + (32 if has_cache else 0) + size, 8)
    else:
        s = s + E.uint(size, 8)
    s = s + E.uint(off, 8) + E.uint(cells, 8 * size) + E.uint(roots, 8 * size) + E.uint(absent, 8 * size) + E.uint(tot, 8 * off)
    if kind == 'generic':
        for r in root_list:
            s = s + E.uint(r, 8 * size)
    return s


def index(ends, off, has_cache=False, cache_bits=None):
    s = Seq()
    for i, e in enumerate(ends):
        v = e * 2 + (cache_bits[i] if cache_bits else 0) if has_cache else e
        s = s + E.uint(v, 8 * off)
    return s


# ---- native strict decoder ----------------------------------------------------------------------------------------------

class FormatError(Exception):
    pass


class DCell:
    """decoded cell: bits ('01' text), refs (DCell), exotic flag/type, level; representation hash by hashlib (level 0 only:
    the oracle compares ordinary trees and exotic cells by (bits, type, refs) structure)"""

    def __init__(self, bits, refs, exotic, d1):
        self.bits, self.refs, self.exotic, self.d1 = bits, refs, exotic, d1

    def struct(self):
        return (self.bits, self.exotic, tuple(r.struct() for r in self.refs))


def crc32c(data: bytes) -> bytes:
    return CRC.crc32c(data, 'little')


def decode(data: bytes, strict_index=True, unique=True):
    """strict decoder: returns list of root DCells; raises FormatError on anything the format forbids"""
    if len(data) < 6:
        raise FormatError('too short')
    magic = data[:4].hex()
    if magic == MAGIC['generic']:
        fl = data[4]
        has_idx, has_crc, has_cache, flags, size = bool(fl & 128), bool(fl & 64), bool(fl & 32), (fl >> 3) & 3, fl & 7
        if flags != 0:
            raise FormatError('flags must be 0')
        if has_cache and not has_idx:
            raise FormatError('cache bits require an index')
        legacy = False
    elif magic in (MAGIC['idx'], MAGIC['idx_crc']):
        size, has_idx, has_crc, has_cache, legacy = data[4], True, magic == MAGIC['idx_crc'], False, True
    else:
        raise FormatError('unknown magic')
    off = data[5]
    if not 1 <= size <= 4:
        raise FormatError('size must be 1..4')
    if not 1 <= off <= 8:
        raise FormatError('off_bytes must be 1..8')
    p = 6

    def take(n):
        nonlocal p
        if p + n > len(data):
            raise FormatError('truncated')
        v = int.from_bytes(data[p:p + n], 'big')
        p += n
        return v
    cells, roots, absent = take(size), take(size), take(size)
    tot = take(off)
    if roots < 1:
        raise FormatError('no roots')
    if roots + absent > cells:
        raise FormatError('roots + absent > cells')
    if legacy:
        if roots != 1:
            raise FormatError('legacy format has exactly one root')
        root_list = [0]
    else:
        root_list = [take(size) for _ in range(roots)]
    idx = [take(off) for _ in range(cells)] if has_idx else None
    if p + tot > len(data):
        raise FormatError('truncated cell data')
    cd = data[p:p + tot]
    p += tot
    if has_crc:
        if p + 4 > len(data):
            raise FormatError('truncated crc')
        if crc32c(data[:p]) != data[p:p + 4]:
            raise FormatError('crc mismatch')
        p += 4
    if p != len(data):
        raise FormatError('trailing bytes')
    # cells
    q = 0
    raw = []
    ends = []
    for ci in range(cells):
        if q + 2 > len(cd):
            raise FormatError('truncated cell')
        d1, d2 = cd[q], cd[q + 1]
        q += 2
        r, exotic, with_hashes, level = d1 & 7, bool(d1 & 8), bool(d1 & 16), d1 >> 5
        if r > 4:
            raise FormatError('absent cell / too many refs')
        if with_hashes:
            q += (level_count(level)) * 34
        nbytes = (d2 >> 1) + (d2 & 1)
        if q + nbytes + r * size > len(cd):
            raise FormatError('truncated cell body')
        body = cd[q:q + nbytes]
        q += nbytes
        bits = ''.join(format(b, '08b') for b in body)
        if d2 & 1:
            if body[-1] == 0:
                raise FormatError('missing completion tag')
            bits = bits[:bits.rindex('1')]
        refs = [int.from_bytes(cd[q + j * size:q + (j + 1) * size], 'big') for j in range(r)]
        q += r * size
        raw.append((bits, refs, exotic, d1))
        ends.append(q)
    if q != len(cd):
        raise FormatError('cell data length mismatch')
    if idx is not None and strict_index:
        want = [(e * 2 if has_cache else e) for e in ends]
        got = [(v & ~1 if has_cache else v) for v in idx]
        if got != want:
            raise FormatError(f'index is not the cumulative end offsets: {idx} vs {ends}')
    built = [None] * cells
    for ci in reversed(range(cells)):
        bits, refs, exotic, d1 = raw[ci]
        for r in refs:
            if r <= ci:
                raise FormatError(f'cell {ci}: reference to cell {r} is not a later cell')
            if r >= cells:
                raise FormatError('dangling reference')
        built[ci] = DCell(bits, [built[r] for r in refs], exotic, d1)
    for ri in root_list:
        if ri >= cells:
            raise FormatError('root index out of range')
    structs = [c.struct() for c in built]
    if unique and len(set(structs)) != len(structs):
        raise FormatError('a cell appears more than once')
    return [built[ri] for ri in root_list]


def level_count(level):
    return level + 1


# ---- native encoder with every encoder freedom ------------------------------------------------------------------------------

def encode(cells, roots=(0,), kind='generic', size=None, off=None, has_idx=False, has_crc=False, has_cache=False,
           cache_bits=None, stored_hashes=None):
    """cells: list of (bits text, [ref indexes], exotic bool, level) in a valid (topological) order.
    stored_hashes: optional {cell index: bytes of (level+1)*34} to emit with the with_hashes flag"""
    n = len(cells)
    size = size or max(1, (n.bit_length() + 7) // 8)
    body = b''
    ends = []
    for ci, (bits, refs, exotic, level) in enumerate(cells):
        b = len(bits)
        sh = (stored_hashes or {}).get(ci)
        d1 = len(refs) + (8 if exotic else 0) + (16 if sh else 0) + 32 * level
        d2 = b // 8 + (b + 7) // 8
        padded = bits + ('1' + '0' * (7 - b % 8) if b % 8 else '')
        body += bytes([d1, d2]) + (sh or b'') + (int(padded, 2).to_bytes(len(padded) // 8, 'big') if padded else b'')
        for r in refs:
            body += r.to_bytes(size, 'big')
        ends.append(len(body))
    if kind != 'generic':
        has_cache = False
    top = (len(body) * 2 + 1) if has_cache else len(body)
    off = off or max(1, (top.bit_length() + 7) // 8)
    if kind == 'generic':
        out = bytes.fromhex(MAGIC[kind]) + bytes([(128 if has_idx else 0) + (64 if has_crc else 0) + (32 if has_cache else 0) + size])
    else:
        out = bytes.fromhex(MAGIC[kind]) + bytes([size])
        has_idx, has_crc, has_cache = True, kind == 'idx_crc', False
    out += bytes([off]) + n.to_bytes(size, 'big') + len(roots).to_bytes(size, 'big') + (0).to_bytes(size, 'big') + \
        len(body).to_bytes(off, 'big')
    if kind == 'generic':
        for r in roots:
            out += r.to_bytes(size, 'big')
    if has_idx:
        for i, e in enumerate(ends):
            v = e * 2 + ((cache_bits or [0] * n)[i]) if has_cache else e
            out += v.to_bytes(off, 'big')
    out += body
    if has_crc:
        out += crc32c(out)
    return out
