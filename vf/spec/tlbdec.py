"""Independent TL-B DECODER generated from the schema (the inverse of vf/spec/tlb.Gen), native only: reads a concrete cell tree
(bits as '0'/'1' text, references) under a type expression of block.tlb and returns the same value classes the generator
produces (Rec, Bool_, Bits_, Addr_, Dict_), so that harness/tlbcheck.agree can compare a library object with it.
Used for the regression obligation 'the bundled real main-net block parses to the field values an independent decoder reads'.
Pruned-branch cells met where a value is expected are returned as ('pruned', cell) and not descended into.
"""
import re
from vf.bits import Seq
from vf.spec import tlb as T

_PRIM = re.compile(r'^(uint|int|bits)(\d+)$')


class DecodeError(Exception):
    pass


class R:
    def __init__(self, cell):
        self.cell = cell
        self.bits = cell.bits.to01()
        self.refs = list(cell.refs)
        self.pos, self.rpos = 0, 0

    def take(self, n):
        if self.pos + n > len(self.bits):
            raise DecodeError(f'need {n} bits, {len(self.bits) - self.pos} left')
        s = self.bits[self.pos:self.pos + n]
        self.pos += n
        return s

    def peek(self, n):
        return self.bits[self.pos:self.pos + n]

    def uint(self, n):
        return int(self.take(n), 2) if n else 0

    def sint(self, n):
        v = self.uint(n)
        return v - (1 << n) if n and v >> (n - 1) else v

    def ref(self):
        if self.rpos >= len(self.refs):
            raise DecodeError('no reference left')
        c = self.refs[self.rpos]
        self.rpos += 1
        return c

    def done(self):
        return self.pos == len(self.bits) and self.rpos == len(self.refs)


def is_exotic(cell):
    return getattr(cell, 'type_', -1) != -1


class Dec:
    def __init__(self, sch=None):
        self.sch = sch or T.schema()
        self.pruned = []

    def nat(self, e, env):
        k = e[0]
        if k == 'nat':
            return e[1]
        if k == 'id':
            return env[e[1]]
        if k == 'add':
            return self.nat(e[1], env) + self.nat(e[2], env)
        if k == 'mul':
            return self.nat(e[1], env) * self.nat(e[2], env)
        raise DecodeError(f'not a nat expression {e}')

    def _is_nat(self, e, env):
        if e[0] == 'nat':
            return True
        if e[0] == 'id':
            return e[1] in env and isinstance(env[e[1]], int)
        if e[0] in ('add', 'mul'):
            return self._is_nat(e[1], env) and self._is_nat(e[2], env)
        return False

    def type(self, t, env, r, path=''):
        k = t[0]
        if k == 'ref':
            inner = t[1]
            while inner[0] == 'id' and isinstance(env.get(inner[1]), tuple) and env[inner[1]][0] == 'closure':
                _, inner, env = env[inner[1]]
            c = r.ref()
            if inner in (('id', 'Cell'), ('id', 'Any')):
                return c
            if is_exotic(c) and getattr(c, 'type_', -1) == 1:
                self.pruned.append(path)
                return ('pruned', c)
            rr = R(c)
            v = self.type(inner, env, rr, path)
            if not rr.done() and not is_exotic(c):
                raise DecodeError(f'{path}: {len(rr.bits) - rr.pos} bits / {len(rr.refs) - rr.rpos} refs left in a referenced value')
            return v
        if k == 'natfield':
            arg = self.nat(t[2], env)
            if t[1] == '##':
                return r.uint(arg)
            if t[1] == '#<=':
                v = r.uint(arg.bit_length())
                if v > arg:
                    raise DecodeError(f'{path}: {v} > {arg}')
                return v
            v = r.uint((arg - 1).bit_length())
            if v >= arg:
                raise DecodeError(f'{path}: {v} >= {arg}')
            return v
        if k == 'mul':
            n = self.nat(t[1], env)
            return T.Bits_(Seq.from_01(r.take(n)))
        if k == 'id':
            name, args = t[1], []
        elif k == 'app':
            name, args = t[1], t[2]
        else:
            raise DecodeError(f'unsupported type expression {t}')
        if name in env and isinstance(env[name], tuple) and env[name][0] == 'closure':
            _, t2, env2 = env[name]
            return self.type(t2, env2, r, path)
        if name == '#':
            return r.uint(32)
        m = _PRIM.match(name)
        if m:
            n = int(m.group(2))
            return r.uint(n) if m.group(1) == 'uint' else (r.sint(n) if m.group(1) == 'int' else T.Bits_(Seq.from_01(r.take(n))))
        if name in ('uint', 'int', 'bits') and args:
            n = self.nat(args[0], env)
            return r.uint(n) if name == 'uint' else (r.sint(n) if name == 'int' else T.Bits_(Seq.from_01(r.take(n))))
        if name == 'Bit':
            return r.uint(1)
        if name == 'Bool':
            return T.Bool_(r.uint(1))
        if name in ('True', 'Unit'):
            return True
        if name in ('Cell', 'Any'):
            s = Seq.from_01(r.take(len(r.bits) - r.pos))
            kids = r.refs[r.rpos:]
            r.rpos = len(r.refs)
            return ('any', s, kids)
        if name in ('VarUInteger', 'VarInteger'):
            n = self.nat(args[0], env)
            ln = r.uint((n - 1).bit_length())
            if ln >= n:
                raise DecodeError(f'{path}: var-integer length {ln} >= {n}')
            return (r.uint(8 * ln) if name == 'VarUInteger' else r.sint(8 * ln)) if ln else 0
        if name in ('Grams', 'Coins'):
            return self.type(('app', 'VarUInteger', [('nat', 16)]), env, r, path)
        if name in ('MsgAddressInt', 'MsgAddressExt', 'MsgAddress'):
            return self.address(name, r, path)
        if name in ('HashmapE', 'Hashmap', 'HashmapAugE', 'HashmapAug'):
            return self.hashmap(name, args, env, r, path)
        if name == 'Maybe':
            return self.type(args[0], env, r, path) if r.uint(1) else None
        if name == 'Either':
            side = r.uint(1)
            return ('either', side, self.type(args[side], env, r, path))
        if name not in self.sch.types:
            raise DecodeError(f'unknown type {name}')
        actual = [self.nat(a, env) if self._is_nat(a, env) else ('closure', a, env) for a in args]
        cands = []
        g = T.Gen(None, T.Policy())
        for c in self.sch.types[name]:
            b = g._unify(c, actual)
            if b is not None and c.tag is not None and r.peek(len(c.tag)) == c.tag:
                cands.append((c, b))
        if not cands:
            raise DecodeError(f'{path}: no constructor of {name} matches the tag {r.peek(8)}...')
        c, b = max(cands, key=lambda cb: len(cb[0].tag))
        fields = [it for it in c.items if it[0] == 'field']
        r.take(len(c.tag))
        if c.tag == '' and len(fields) == 1 and fields[0][1] is None and fields[0][2][0] != 'cellref':
            return self.type(fields[0][2], dict(b), r, path)
        if c.exotic and getattr(r.cell, 'type_', -1) != int(c.tag[:8], 2):
            raise DecodeError(f'{path}: {c.name} must be an exotic cell of type {int(c.tag[:8], 2)}')
        rec = T.Rec(c.rtype, c.name)
        self.items(c.items, dict(b), rec, r, path)
        return rec

    def items(self, items, env, rec, r, path):
        for it in items:
            if it[0] == 'param':
                continue
            if it[0] == 'constraint':
                self.constraint(it, env, path)
                continue
            _, name, t = it
            fpath = f'{path}.{name}' if name else path + '._'
            if t[0] == 'cellref':
                c = r.ref()
                if is_exotic(c):
                    self.pruned.append(fpath)
                    continue
                rr = R(c)
                self.items(t[1], env, rec, rr, path)
                if not rr.done():
                    raise DecodeError(f'{fpath}: data left in an anonymous reference')
                continue
            if t[0] == 'cond':
                g = env[t[1]]
                on = (g >> t[2]) & 1 if t[2] is not None else (g != 0)
                if not on:
                    if name:
                        rec.f[name] = None
                    continue
                t = t[3]
            before = r.rpos
            v = self.type(t, env, r, fpath)
            if name:
                rec.f[name] = v
                if r.rpos == before + 1:
                    from vf.spec.vmstack import Raw
                    rec.nodes[name] = Raw(r.refs[before])
                if isinstance(v, int) and not isinstance(v, bool):
                    env[name] = v
            else:
                rec.f.setdefault('_anon', []).append(v)

    def constraint(self, it, env, path):
        _, lhs, op, rhs = it

        def has_neg(e):
            return isinstance(e, tuple) and (e[0] == 'neg' or any(has_neg(x) for x in e[1:]))
        if has_neg(lhs) or has_neg(rhs):
            if has_neg(rhs):
                lhs, rhs = rhs, lhs
            if op == '=' and lhs[0] == 'add' and lhs[1][0] == 'neg':
                env[lhs[1][1]] = self.nat(rhs, env) - lhs[2][1]
            return
        try:
            a, b = self.nat(lhs, env), self.nat(rhs, env)
        except (KeyError, DecodeError):
            return
        ok = {'<=': a <= b, '>=': a >= b, '=': a == b, '<': a < b, '>': a > b}[op]
        if not ok:
            raise DecodeError(f'{path}: constraint {a} {op} {b} violated')

    def address(self, name, r, path):
        tag = r.take(2)
        if tag == '00':
            return T.Addr_('none')
        if tag == '01':
            ln = r.uint(9)
            return T.Addr_('extern', len=ln, value=r.uint(ln))
        any_ = None
        if r.uint(1):
            d = r.uint(5)
            any_ = (d, r.uint(d))
        if tag == '10':
            wc = r.sint(8)
            return T.Addr_('std', wc=wc, hash=Seq.from_01(r.take(256)), anycast=any_)
        ln = r.uint(9)
        wc = r.sint(32)
        return T.Addr_('var', wc=wc, len=ln, bits=Seq.from_01(r.take(ln)), anycast=any_)

    # ---- dictionaries ---------------------------------------------------------------------------------------------------
    def label(self, r, m):
        if r.uint(1) == 0:
            n = 0
            while r.uint(1):
                n += 1
            return r.take(n)
        if r.uint(1) == 0:
            n = r.uint(m.bit_length())
            return r.take(n)
        v = r.take(1)
        n = r.uint(m.bit_length())
        return v * n

    def hashmap(self, name, args, env, r, path):
        n = self.nat(args[0], env)
        aug = name.startswith('HashmapAug')
        is_e = name.endswith('E')
        vt, et = args[1], (args[2] if aug else None)
        d = T.Dict_(n, [], aug)
        d.extras_seq = []
        if is_e:
            if r.uint(1) == 0:
                if aug:
                    d.root_extra = self.type(et, env, r, path + '.extra')
                return d
            root = r.ref()
            from vf.spec.vmstack import Raw
            d.root_node = Raw(root)
            if is_exotic(root):
                self.pruned.append(path)
                d.pruned_root = True
            else:
                self.edge(R(root), n, '', vt, et, env, d, path)
            if aug:
                d.root_extra = self.type(et, env, r, path + '.extra')
            return d
        self.edge(r, n, '', vt, et, env, d, path)
        return d

    def edge(self, r, m, prefix, vt, et, env, d, path):
        lab = self.label(r, m)
        if len(lab) > m:
            raise DecodeError(f'{path}: label longer than the remaining key')
        prefix += lab
        m -= len(lab)
        if m == 0:
            extra = self.type(et, env, r, f'{path}[{prefix[:16]}].extra') if d.aug else None
            v = self.type(vt, env, r, f'{path}[{int(prefix, 2) if prefix else 0:#x}]')
            d.entries.append((int(prefix, 2) if prefix else 0, v, extra))
            if d.aug:
                d.extras_seq.append(extra)
            return
        for b in '01':
            c = r.ref()
            if is_exotic(c):
                self.pruned.append(path)
                continue
            self.edge(R(c), m - 1, prefix + b, vt, et, env, d, path)
        if d.aug:
            d.extras_seq.append(self.type(et, env, r, path + '.forkextra'))


def decode(cell, typename, args=()):
    d = Dec()
    t = ('app', typename, [('nat', a) if type(a) is int else a for a in args]) if args else ('id', typename)
    r = R(cell)
    v = d.type(t, {}, r, typename)
    return v, r, d
