"""Independent reader of the bundled TL schemas and TL binary encoder (core.telegram.org/mtproto/TL and /mtproto/serialize):

  * a declaration `name[#hexid] field:type ... = Class;`; the constructor id, when not given explicitly, is the CRC32 of the
    declaration text with `;`, `(` and `)` removed (and whitespace normalised);
  * ids and integers little-endian; `int` 4 bytes, `long` 8, `int128`/`int256` 16/32 raw bytes, `#` a 4-byte flags word;
  * `Bool` is boxed: boolTrue#997275b5 / boolFalse#bc799737;
  * `bytes` / `string`: length L <= 253 in one byte, else 0xFE and L in 3 bytes; then the data; then zero padding to a multiple of 4;
  * `(vector T)`: 4-byte count, then the elements; a type named by a constructor (lower-case last component) is BARE (no id),
    a type named by a class (upper-case last component) is BOXED (4-byte id of the chosen constructor first);
  * `f:flags.N?T` is present iff bit N of the earlier `#` field `flags` is set.
Encodings are vf.bits.Seq, polymorphic over concrete and symbolic values, so the same text serves proof and replay.
"""
import os
import re
import zlib
from vf.bits import Seq, Val
from vf.spec import enc as E

SCHEMA_DIR = os.path.join(os.environ.get('VERIF_REPO', '/repo'), 'pytoniq_core', 'tl', 'schemas')
BOOL_TRUE, BOOL_FALSE = bytes.fromhex('b5757299'), bytes.fromhex('379779bc')     # little-endian ids
FIXED = {'int': 4, 'long': 8, 'int128': 16, 'int256': 32, '#': 4}


class Con:
    def __init__(self, name, cid, fields, cls, text, file):
        self.name, self.id, self.fields, self.cls, self.text, self.file = name, cid, fields, cls, text, file
        # fields: [(name, type, cond)] ; cond = (flags_field, bit) or None


def _split_fields(body):
    out, cur, depth = [], '', 0
    for ch in body:
        if ch == '(':
            depth += 1
        elif ch == ')':
            depth -= 1
        if ch == ' ' and depth == 0:
            if cur:
                out.append(cur)
            cur = ''
        else:
            cur += ch
    if cur:
        out.append(cur)
    return out


def read_schemas(directory=None):
    """all declarations of all .tl files in the directory, in file order: list of Con"""
    directory = directory or SCHEMA_DIR
    cons = []
    for fn in sorted(os.listdir(directory)):
        if not fn.endswith('.tl'):
            continue
        buf = ''
        for line in open(os.path.join(directory, fn)):
            line = line.split('//')[0].strip()
            if not line or line.startswith('---'):
                continue
            buf = (buf + ' ' + line).strip()
            if ';' not in buf:
                continue
            decl, buf = buf, ''
            decl = ' '.join(decl.split())
            lhs, _, rhs = decl.rstrip(';').rpartition('=')
            cls = rhs.strip()
            toks = _split_fields(lhs.strip())
            head, ftoks = toks[0], toks[1:]
            if '#' in head:
                name, hexid = head.split('#')
                cid = int(hexid, 16)
            else:
                name = head
                cid = zlib.crc32(decl.replace(';', '').replace('(', '').replace(')', '').strip().encode())
            fields = []
            for t in ftoks:
                if ':' not in t:
                    fields.append((None, t, None))
                    continue
                fname, ftype = t.split(':', 1)
                cond = None
                m = re.match(r'^([A-Za-z_][A-Za-z_0-9]*)\.(\d+)\?(.+)$', ftype)
                if m:
                    cond = (m.group(1), int(m.group(2)))
                    ftype = m.group(3)
                fields.append((fname, ftype, cond))
            cons.append(Con(name, cid, fields, cls, decl, fn))
    return cons


def is_bare_name(t):
    last = t.split('.')[-1]
    return last[:1].islower()


class Universe:
    def __init__(self, cons):
        self.cons = cons
        self.by_name, self.by_cls = {}, {}
        for c in cons:
            self.by_name[c.name] = c            # later declarations win, as in a dict built in file order
        for c in cons:
            self.by_cls.setdefault(c.cls, [])
        for c in self.by_name.values():
            self.by_cls[c.cls].append(c)

    def supported_type(self, t, seen=()):
        """can the LIBRARY's data model express a value of field type t (the property is conditional on this)?"""
        if t in ('int', 'long', 'int128', 'int256', 'Bool', '#', 'bytes', 'string'):
            return True
        if t.startswith('(vector ') and t.endswith(')'):
            return self.supported_type(t[8:-1], seen)
        if t in seen:
            return True
        if t in self.by_name and is_bare_name(t):
            return all(self.supported_type(ft, seen + (t,)) for _, ft, _ in self.by_name[t].fields if _ is not None or True)
        if t in self.by_cls and self.by_cls[t] and not is_bare_name(t):
            return all(self.supported_con(c, seen + (t,)) for c in self.by_cls[t])
        return False

    def supported_con(self, c, seen=()):
        if any(n is None for n, _, _ in c.fields):
            return False
        for n, t, cond in c.fields:
            if cond is not None and not any(fn == cond[0] and ft == '#' for fn, ft, _ in c.fields):
                return False
            if not self.supported_type(t, seen + (c.name,)):
                return False
        return True


# ---- encoding ---------------------------------------------------------------------------------------------------------------

def _reverse_bytes(seq, nbytes):
    """byte reversal of a Seq of 8*nbytes bits"""
    rest, parts = seq, []
    for _ in range(nbytes):
        b, rest = rest.take_front(8)
        parts.insert(0, b)
    out = Seq()
    for p in parts:
        out = out + p
    return out


def le_uint(v, nbytes):
    """little-endian unsigned integer: the big-endian image with its bytes reversed (0 <= v < 256^nbytes)"""
    if type(v) is int:
        return Seq.from_bytes(v.to_bytes(nbytes, 'little'))
    return _reverse_bytes(E.uint(v, 8 * nbytes), nbytes)


def le_int(v, nbytes):
    """little-endian two's complement"""
    if type(v) is int:
        return Seq.from_bytes(v.to_bytes(nbytes, 'little', signed=True))
    return _reverse_bytes(E.int_(v, 8 * nbytes), nbytes)


def frame(w, data_seq, nbytes):
    """TL string framing for a payload of nbytes bytes (nbytes concrete here; its residue class decides the padding)"""
    if nbytes <= 253:
        s = Seq.from_bytes(bytes([nbytes])) + data_seq
        used = 1 + nbytes
    else:
        s = Seq.from_bytes(b'\xfe' + nbytes.to_bytes(3, 'little')) + data_seq
        used = 4 + nbytes
    pad = (-used) % 4
    return s + (Seq.from_bytes(b'\0' * pad) if pad else Seq())


def frame_sym(w, data_seq, n, cls_, r):
    """framing for a payload whose length n = 4q + r is SYMBOLIC within a framing class ('short': n <= 253, 'long': n >= 254)"""
    if cls_ == 'short':
        return le_uint(n, 1) + data_seq + (Seq.from_bytes(b'\0' * ((-(1 + r)) % 4)) if (-(1 + r)) % 4 else Seq())
    return Seq.from_bytes(b'\xfe') + le_uint(n, 3) + data_seq + (Seq.from_bytes(b'\0' * ((-r) % 4)) if (-r) % 4 else Seq())
