"""TON cell representation, level masks and per-level hashes/depths, written from the TON specification
(tvm.pdf 3.1.4-3.1.7, tblkch.pdf, DataCell.cpp semantics) independently of the library.  Polymorphic over the
world w (symbolic / native): bit strings are vf.bits.Seq, digests come from w.sha256.

   d1 = r + 8*exotic + 32*mask_l        d2 = floor(b/8) + ceil(b/8)
   pad(bits) = bits ++ 1 ++ 0^(7 - b mod 8)   when b mod 8 != 0
   level-i hash: H(d1(mask & (2^l - 1)) d2 ++ (pad(bits) for the lowest computed hash, else the previous hash)
                    ++ depth_l(c_j) as 16 bit ... ++ hash_l(c_j) ...)      children observed at l (+1 for Merkle cells)
   depth_l = 0 if r = 0 else 1 + max depth_l(c_j)
"""
from vf.bits import Seq, Val
from vf.spec import enc as E

ORDINARY, PRUNED, LIBRARY, MERKLE_PROOF, MERKLE_UPDATE = -1, 1, 2, 3, 4


def popcount(m):
    return bin(m).count('1')


def level(m):
    return m.bit_length()


def apply(m, l):
    return m & ((1 << l) - 1)


def significant(m, l):
    return l == 0 or (m >> (l - 1)) & 1 == 1


def d1(r, exotic, mask):
    return r + 8 * (1 if exotic else 0) + 32 * mask


def d2(b):
    """b: bit length (int or symbolic) -> floor(b/8) + ceil(b/8)"""
    return (b // 8) + ((b + 7) // 8)


def pad(bits: Seq, m: int) -> Seq:
    """completion tag; m = len(bits) mod 8 (concrete)"""
    if m == 0:
        return bits
    return bits + Seq.from_int(1 << (7 - m), 8 - m)


class Obs:
    """what a parent may observe of a child: hash and depth at level l (0..3)"""

    def __init__(self, hash_at, depth_at, mask):
        self.hash_at, self.depth_at, self.mask = hash_at, depth_at, mask


def resolve_mask(type_, own_data_mask, child_masks):
    if type_ == ORDINARY:
        m = 0
        for c in child_masks:
            m |= c
        return m
    if type_ == PRUNED:
        return own_data_mask
    if type_ == LIBRARY:
        return 0
    if type_ == MERKLE_PROOF:
        return child_masks[0] >> 1
    if type_ == MERKLE_UPDATE:
        return (child_masks[0] | child_masks[1]) >> 1
    raise ValueError(type_)


def level_hashes(w, type_, mask, bits: Seq, b, m8, children):
    """returns (hashes, depths): lists indexed by hash index of the COMPUTED hashes
    (pruned branch: one entry, its own representation at its full level; others: popcount(mask)+1 entries).
    bits: data bits (Seq), b: their length (int or symbolic), m8 = b mod 8 (concrete), children: list of Obs"""
    exotic = type_ != ORDINARY
    merkle = type_ in (MERKLE_PROOF, MERKLE_UPDATE)
    r = len(children)
    levels = [l for l in range(0, level(mask) + 1) if significant(mask, l)]
    if type_ == PRUNED:
        levels = levels[-1:]
    hashes, depths = [], []
    prev = None
    for l in levels:
        s = E.uint(d1(r, exotic, apply(mask, l)), 8) + E.uint(d2(b), 8)
        if prev is None:
            s = s + pad(bits, m8)
        else:
            s = s + w.bytes_seq(prev)
        cl = l + 1 if merkle else l
        dep = 0
        for c in children:
            cd = c.depth_at(cl)
            s = s + E.uint(cd, 16)
            dep = w.ite(cd > dep, cd, dep) if not (type(cd) is int and type(dep) is int) else max(cd, dep)
        if r:
            dep = dep + 1
        for c in children:
            s = s + w.bytes_seq(c.hash_at(cl))
        h = w.sha256(s)
        hashes.append(h)
        depths.append(dep)
        prev = h
    return hashes, depths


def observe(w, type_, mask, hashes, depths, data_bytes_seq):
    """Obs of a cell given its computed hashes/depths (and, for a pruned branch, its data): the hash/depth reported at
    level l is the one with index popcount(mask & (2^l-1)); a pruned branch reports the STORED hash/depth of the
    removed subtree below its own level"""
    def hash_at(l):
        i = popcount(apply(mask, l))
        if type_ == PRUNED:
            if i != popcount(mask):
                _, rest = data_bytes_seq.take_front(16 + 256 * i)
                got, _ = rest.take_front(256)
                return _as_bytes(w, got)
            i = 0
        return hashes[i]

    def depth_at(l):
        i = popcount(apply(mask, l))
        if type_ == PRUNED:
            if i != popcount(mask):
                _, rest = data_bytes_seq.take_front(16 + 256 * popcount(mask) + 16 * i)
                got, _ = rest.take_front(16)
                return w.val(got)
            i = 0
        return depths[i]
    return Obs(hash_at, depth_at, mask)


def _as_bytes(w, seq):
    from vf.bits import SymBytes
    if w.symbolic:
        return SymBytes.make(seq)
    n = seq.length()
    return seq.value().to_bytes(n // 8, 'big')
