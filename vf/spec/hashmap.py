"""TON Hashmap / HashmapAug (tblkch.pdf 3.3, block.tlb hm_edge / hml_* / hmn_* / ahm_*), written independently.

label kinds (dict.cpp append_dict_label; k = bit length of the remaining key length m):
    same   iff all label bits equal and n > 1 and k < 2n - 1      : 11 v n:k
    long   iff (not same) and k < n                                : 10 n:k s
    short  otherwise                                                : 0 1^n 0 s
The label part is polymorphic (Seq, symbolic values); the tree part is native (bounded stand-ins use it as oracle)."""
import hashlib
from vf.bits import Seq
from vf.spec import enc as E


def bitlen_sym(w, m):
    """bit length of 0 <= m < 2^11 as a term: number of i with m >= 2^i"""
    if type(m) is int:
        return m.bit_length()
    k = 0
    for i in range(0, 11):
        k = k + w.ite(m >= (1 << i), 1, 0)
    return k


def kind_is(w, kind, n, k, same):
    """truth of `canonical kind == kind` for label length n, k = bitlen(m), same = all bits equal"""
    is_same = w.And(same, n > 1, k < 2 * n - 1)
    is_long = w.And(w.Not(is_same), k < n)
    if kind == 'same':
        return is_same
    if kind == 'long':
        return is_long
    return w.And(w.Not(is_same), w.Not(is_long))


def enc_label(kind, s: Seq, n: int, k: int, v=None) -> Seq:
    """n concrete label length, k = bitlen(m) concrete, s the label bits (Seq of length n), v the repeated bit for 'same'"""
    if kind == 'short':
        return E.lit('0') + (Seq.from_int((1 << n) - 1, n) if n else Seq()) + E.lit('0') + s
    if kind == 'long':
        return E.lit('10') + E.uint(n, k) + s
    return E.lit('11') + E.uint(v, 1) + E.uint(n, k)


# ---- native canonical serialiser (bit strings as '01' text) -------------------------------------------------------

def canon_kind(label: str, m: int) -> str:
    n, k = len(label), m.bit_length()
    if n > 1 and len(set(label)) == 1 and k < 2 * n - 1:
        return 'same'
    if k < n:
        return 'long'
    return 'short'


def label_bits(label: str, m: int, kind=None) -> str:
    n, k = len(label), m.bit_length()
    kind = kind or canon_kind(label, m)
    if kind == 'short':
        return '0' + '1' * n + '0' + label
    if kind == 'long':
        return '10' + (format(n, f'0{k}b') if k else '') + label
    assert len(set(label)) <= 1
    return '11' + (label[0] if n else '0') + (format(n, f'0{k}b') if k else '')


def lcp(keys):
    ks = list(keys)
    p = ks[0]
    for x in ks[1:]:
        i = 0
        while i < len(p) and p[i] == x[i]:
            i += 1
        p = p[:i]
    return p


class SCell:
    """independent cell: bits ('01' text), refs (SCell), exotic type or -1; representation hash by hashlib"""

    def __init__(self, bits, refs=(), type_=-1, level_mask=0):
        self.bits, self.refs, self.type_, self.level_mask = bits, list(refs), type_, level_mask
        self.depth = 1 + max(r.depth for r in self.refs) if self.refs else 0
        b = len(bits)
        d1 = len(self.refs) + (8 if type_ != -1 else 0) + 32 * level_mask
        d2 = b // 8 + (b + 7) // 8
        padded = bits + ('1' + '0' * (7 - b % 8) if b % 8 else '')
        data = int(padded, 2).to_bytes(len(padded) // 8, 'big') if padded else b''
        r = bytes([d1, d2]) + data + b''.join(c.depth.to_bytes(2, 'big') for c in self.refs) + \
            b''.join(c.hash for c in self.refs)
        self.hash = hashlib.sha256(r).digest()


def build(entries: dict, m: int, value_bits, choose=None, extra=None):
    """entries: {key bit text (all of length m): value}; value_bits(value) -> (bit text, [SCell refs]).
    choose(label, m) -> label kind to use (default canonical).  extra: None (plain Hashmap) or a function
    extra(list of values below) -> bit text of the augmentation (HashmapAug: leaf extra precedes value, fork extra
    follows the two references)."""
    label = lcp(entries.keys()) if len(entries) > 1 else next(iter(entries))
    kind = choose(label, m) if choose else None
    bits = label_bits(label, m, kind)
    rest = {k[len(label):]: v for k, v in entries.items()}
    m2 = m - len(label)
    if len(rest) == 1:
        assert m2 == 0
        v = next(iter(rest.values()))
        vb, vrefs = value_bits(v)
        if extra:
            bits += extra([v])
        return SCell(bits + vb, vrefs)
    left = {k[1:]: v for k, v in rest.items() if k[0] == '0'}
    right = {k[1:]: v for k, v in rest.items() if k[0] == '1'}
    c = [build(left, m2 - 1, value_bits, choose, extra), build(right, m2 - 1, value_bits, choose, extra)]
    if extra:
        bits += extra(list(entries.values()))
    return SCell(bits, c)
