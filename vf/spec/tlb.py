"""An independent reader of TL-B schemas (block.tlb) and an ENCODER generated from the schema.

The schema text is parsed on every run from /repo/pytoniq_core/tlb/schemas/block.tlb (+ vf/spec/block_supplement.tlb for the
few constructors the library parses but the bundled schema lacks, and for constructor tags the schema leaves implicit).
`Gen` walks a type expression and, in ONE pass, (a) creates the symbolic leaves (one fresh value per primitive field, over its
full range), (b) emits exactly the bits / references the schema prescribes, (c) returns the logical value tree.  All choices
that select the SHAPE of the encoding (constructor alternative, Maybe/Either, conditional-field guards and other fields used
as type parameters, var-integer byte lengths, dictionary shapes, address kinds) are concrete and taken from a Policy, so a
harness enumerates them as an exhaustive finite case split while the field VALUES stay symbolic.

Nothing here looks at the library's parsers: it is the 'independent implementation of the schema' of property C16/C15.
"""
import os
import re
from vf.bits import Seq
from vf.spec import enc as E
from vf.spec.vmstack import Node, Raw

SCHEMA_FILE = os.path.join(os.environ.get('VERIF_REPO', '/repo'), 'pytoniq_core', 'tlb', 'schemas', 'block.tlb')
SUPPLEMENT = os.path.join(os.path.dirname(os.path.abspath(__file__)), 'block_supplement.tlb')


class TlbError(Exception):
    pass


class DoesNotFit(TlbError):
    """the value needs more than 1023 bits / 4 references in one cell: it has no encoding (not a case)"""


# =====================================================================================================================
# parser
# =====================================================================================================================

class Cons:
    def __init__(self, name, tag, items, rtype, rargs, src):
        self.name, self.tag, self.items, self.rtype, self.rargs, self.src = name, tag, items, rtype, rargs, src
        self.exotic = False

    def __repr__(self):
        return f'<{self.name} = {self.rtype}>'


_TOK = re.compile(r'\s*(##|#<=|#<|<=|>=|[{}()\[\]\^~:=;.?*+<>]|#|[A-Za-z_][A-Za-z_0-9]*|\d+)')


def _tokens(s):
    out, i = [], 0
    s = s.strip()
    while i < len(s):
        m = _TOK.match(s, i)
        if not m:
            raise TlbError(f'cannot tokenise at {s[i:i + 30]!r}')
        out.append(m.group(1))
        i = m.end()
    return out


class _P:
    def __init__(self, toks):
        self.t, self.i = toks, 0

    def peek(self, k=0):
        return self.t[self.i + k] if self.i + k < len(self.t) else None

    def next(self):
        x = self.peek()
        self.i += 1
        return x

    def expect(self, x):
        if self.next() != x:
            raise TlbError(f'expected {x} at {self.t[max(0, self.i - 4):self.i + 3]}')

    # items: ('param', name, kind) | ('constraint', lhs, op, rhs) | ('field', name|None, texpr)
    def items(self, stop):
        out = []
        while self.peek() not in stop:
            if self.peek() is None:
                raise TlbError('unexpected end of declaration')
            if self.peek() == '{':
                self.next()
                if self.peek(1) == ':' and self.peek(2) in ('#', 'Type') and self.peek(3) == '}':
                    out.append(('param', self.next(), (self.next(), self.next())[1]))
                    self.expect('}')
                else:
                    lhs = self.natsum()
                    op = self.next()
                    rhs = self.natsum()
                    self.expect('}')
                    out.append(('constraint', lhs, op, rhs))
            elif self.peek() == '^' and self.peek(1) == '[':
                out.append(('field', None, self.atom()))
            elif re.match(r'[A-Za-z_]', self.peek() or '') and self.peek(1) == ':':
                name = self.next()
                self.next()
                out.append(('field', None if name == '_' else name, self.term()))
            else:
                out.append(('field', None, self.term()))
        return out

    def term(self):
        """a field type: possibly conditional  `f?T`, `f . k?T`, `(f . k)?T`"""
        save = self.i
        guard = None
        if self.peek() == '(' and self.peek(2) == '.' and self.peek(4) == ')' and self.peek(5) == '?':
            self.next()
            guard = (self.next(), (self.next(), int(self.next()))[1])
            self.next()
        elif self.peek(1) == '.' and self.peek(3) == '?':
            guard = (self.next(), (self.next(), int(self.next()))[1])
        elif self.peek(1) == '?' and re.match(r'[A-Za-z_]', self.peek() or ''):
            guard = (self.next(), None)
        if guard is not None:
            self.expect('?')
            return ('cond', guard[0], guard[1], self.term())
        self.i = save
        return self.atom()

    def atom(self):
        t = self.next()
        if t == '(':
            e = self.expr()
            self.expect(')')
            return e
        if t == '^':
            if self.peek() == '[':
                self.next()
                its = self.items((']',))
                self.expect(']')
                return ('cellref', its)
            return ('ref', self.atom())
        if t == '~':
            if self.peek() == '(':
                return ('negexpr', self.atom())
            return ('neg', self.next())
        if t == '#':
            return ('id', '#')
        if t.isdigit():
            return ('nat', int(t))
        if re.match(r'[A-Za-z_]', t):
            return ('id', t)
        raise TlbError(f'unexpected token {t!r}')

    def expr(self):
        if self.peek() in ('##', '#<=', '#<'):
            op = self.next()
            return ('natfield', op, self.atom())
        return self.natsum()

    def natsum(self):
        a = self.product()
        while self.peek() == '+':
            self.next()
            a = ('add', a, self.product())
        return a

    def product(self):
        a = self.app()
        while self.peek() == '*':
            self.next()
            a = ('mul', a, self.app())
        return a

    def app(self):
        head = self.term()
        args = []
        while self.peek() not in (')', '+', '*', '=', '<=', '>=', '<', '>', '}', None, ';'):
            args.append(self.term())
        if args:
            if head[0] != 'id':
                raise TlbError(f'application of a non-identifier {head}')
            return ('app', head[1], args)
        return head


def parse_schema(text, origin=''):
    text = re.sub(r'/\*.*?\*/', ' ', text, flags=re.S)
    text = re.sub(r'//[^\n]*', ' ', text)
    out = []
    for decl in text.split(';'):
        decl = decl.strip()
        if not decl:
            continue
        m = re.match(r'(!?[A-Za-z_][A-Za-z_0-9]*)?\s*([#$][0-9a-fA-F_]*)?', decl)
        name = (m.group(1) or '_').lstrip('!')
        tagtxt = m.group(2)
        rest = decl[m.end():]
        if m.group(1) is None and tagtxt is None:
            raise TlbError(f'bad declaration {decl[:60]!r}')
        if tagtxt is None:
            tag = '' if name == '_' else None          # None: tag computed by CRC32 of the declaration (not modelled)
        elif tagtxt[0] == '$':
            tag = tagtxt[1:].replace('_', '')
        else:
            h = tagtxt[1:]
            if h.endswith('_'):
                bits = ''.join(format(int(c, 16), '04b') for c in h[:-1])
                bits = bits.rstrip('0')[:-1] if bits else ''      # '#0201_': drop the trailing completion tag 10*
                tag = bits
            else:
                tag = ''.join(format(int(c, 16), '04b') for c in h)
        p = _P(_tokens(rest))
        items = p.items(('=',))
        p.expect('=')
        rtype = p.next()
        rargs = []
        while p.peek() is not None:
            rargs.append(p.atom())
        out.append(Cons(name, tag, items, rtype, rargs, origin))
        out[-1].exotic = (m.group(1) or '').startswith('!')
    return out


class Schema:
    def __init__(self, conses):
        self.types = {}
        for c in conses:
            lst = self.types.setdefault(c.rtype, [])
            same = [k for k in lst if k.name == c.name and c.name != '_' and k.rargs == c.rargs]
            if same:                     # the supplement (loaded last) overrides a bundled declaration of the same name
                lst[lst.index(same[0])] = c
            else:
                lst.append(c)


_SCHEMA = None


def schema():
    global _SCHEMA
    if _SCHEMA is None:
        cs = parse_schema(open(SCHEMA_FILE).read(), 'block.tlb')
        for f in (SUPPLEMENT, SUPPLEMENT.replace('block_supplement', 'custom_supplement')):
            if os.path.exists(f):
                cs += parse_schema(open(f).read(), os.path.basename(f))
        _SCHEMA = Schema(cs)
    return _SCHEMA


# =====================================================================================================================
# values
# =====================================================================================================================

class Rec:
    """value of a constructor type: fields by schema name (anonymous ^[...] groups and anonymous fields are flattened)"""

    def __init__(self, type_, cons):
        self.type, self.cons, self.f = type_, cons, {}
        self.nodes = {}          # field -> encoding node, for fields that occupy exactly one reference

    def __repr__(self):
        return f'Rec({self.type}.{self.cons}: {list(self.f)})'


class Bool_:
    def __init__(self, b):
        self.b = b          # 0/1 int or symbolic


class Bits_:
    def __init__(self, seq):
        self.seq = seq


class Addr_:
    """kind: 'none' | 'extern' (len, value) | 'std' (wc, hash Seq, anycast) | 'var' (wc, len, bits Seq, anycast)"""

    def __init__(self, kind, **kw):
        self.kind = kind
        self.__dict__.update(kw)


class Dict_:
    """entries: [(key:int, value, extra)] ; root_extra for the *E augmented forms ; n key bits"""

    def __init__(self, n, entries, aug, root_extra=None, fork_extra=None, inline=False):
        self.n, self.entries, self.aug, self.root_extra, self.fork_extra, self.inline = n, entries, aug, root_extra, fork_extra, inline
        self.root_node = None


class CellBuf:
    def __init__(self):
        self.bits, self.refs = Seq(), []

    def node(self):
        if self.bits.length() > 1023 or len(self.refs) > 4:
            raise DoesNotFit(f'{self.bits.length()} bits / {len(self.refs)} refs')
        n = Node(self.bits, self.refs)
        n.type_ = getattr(self, 'type_', -1)
        return n


# =====================================================================================================================
# policy: every shape-selecting choice, concrete
# =====================================================================================================================

class Policy:
    """default policy: a nested 'profile' (0: first alternative / absent / empty ; 1: last alternative / present / non-empty),
    overridden at the paths listed in `own` (path -> index).  `rot` rotates var-integer byte lengths."""

    def __init__(self, own=None, prof=0, rot=0, recorder=None):
        self.own, self.prof, self.rot, self.recorder = own or {}, prof, rot, recorder
        self.varcount = 0
        self.addr_var = False        # addr_var$11 (variable-length internal addresses) is exercised by its own obligation

    def choose(self, path, kind, n, depth):
        """index in range(n) for the choice point at `path`"""
        if path in self.own:
            return self.own[path] % n
        if self.recorder is not None and depth <= 1:
            self.recorder.append((path, kind, n))
            return 0
        if self.prof == 0:
            return 0
        if self.prof == 1:
            return n - 1
        return (self.prof + len(path)) % n

    def varlen(self, path, n):
        """byte length of a VarUInteger/VarInteger n field (0..n-1); rotated so that over rot=0..n-1 every field takes every
        length"""
        k = self.varcount
        self.varcount += 1
        return (self.rot + 5 * k) % n


# =====================================================================================================================
# generator / encoder
# =====================================================================================================================

_PRIM = re.compile(r'^(uint|int|bits)(\d+)$')


def _bitlen(n):
    return n.bit_length()


class Gen:
    def __init__(self, w, policy, cell_factory=None, sch=None, prefix=''):
        self.w, self.pol, self.sch = w, policy, sch or schema()
        self.prefix = prefix            # prefix of the symbol names (a second, independent value of the same shape)
        self.cell_factory = cell_factory
        self.assumptions = []
        self.ncell = 0
        self.stack = []
        self.forced0 = 0

    def _choose(self, path, kind, n, depth):
        if self.forced0 and path not in self.pol.own:
            return 0            # below a recursive occurrence of a type: first alternatives only (terminates)
        return self.pol.choose(path, kind, n, depth)

    # ---- leaves -------------------------------------------------------------------------------------------------
    def _uint(self, path, nbits, cur, hi=None, pin=None):
        if pin is not None:
            v = pin
        else:
            v = self.w.int(self.prefix + 'v:' + path, 0, (1 << nbits) - 1 if hi is None else hi)
        cur.bits = cur.bits + E.uint(v, nbits)
        return v

    def _int(self, path, nbits, cur):
        v = self.w.int(self.prefix + 'v:' + path, -(1 << (nbits - 1)), (1 << (nbits - 1)) - 1)
        cur.bits = cur.bits + E.int_(v, nbits)
        return v

    def _bits(self, path, nbits, cur):
        s = self.w.bits(self.prefix + 'b:' + path, nbits)
        cur.bits = cur.bits + s
        return Bits_(s)

    def _cell(self, path):
        self.ncell += 1
        if self.cell_factory is not None:
            return self.cell_factory(path)
        from harness.common import abstract_cell
        c = abstract_cell(self.w, 'c:' + path)
        self.w.assume(c._depths[0] <= 900)
        return c

    # ---- nat expressions ------------------------------------------------------------------------------------------
    def nat(self, e, env):
        k = e[0]
        if k == 'nat':
            return e[1]
        if k == 'id':
            if e[1] in env:
                return env[e[1]]
            raise TlbError(f'unbound {e[1]}')
        if k == 'add':
            return self.nat(e[1], env) + self.nat(e[2], env)
        if k == 'mul':
            return self.nat(e[1], env) * self.nat(e[2], env)
        raise TlbError(f'not a nat expression: {e}')

    def _is_nat_expr(self, e, env):
        if e[0] == 'nat':
            return True
        if e[0] == 'id':
            return e[1] in env and not isinstance(env[e[1]], tuple)
        if e[0] in ('add', 'mul'):
            return self._is_nat_expr(e[1], env) and self._is_nat_expr(e[2], env)
        return False

    # ---- types --------------------------------------------------------------------------------------------------------
    def type(self, t, env, path, cur, depth=0, pin=None):
        """emit a value of type expression t into cur; returns the logical value"""
        w = self.w
        k = t[0]
        if k == 'ref':
            sub = CellBuf()
            inner = t[1]
            while inner[0] == 'id' and isinstance(env.get(inner[1]), tuple) and env[inner[1]][0] == 'closure':
                _, inner, env = env[inner[1]]
            t = ('ref', inner)
            if t[1] == ('id', 'Cell') or t[1] == ('id', 'Any'):
                c = self._cell(path)
                cur.refs.append(Raw(c))
                return c
            v = self.type(t[1], env, path, sub, depth)
            cur.refs.append(sub.node())
            return v
        if k == 'cellref':
            raise TlbError('anonymous ^[...] outside a constructor')
        if k == 'natfield':
            op, arg = t[1], self.nat(t[2], env)
            if type(arg) is not int:
                raise TlbError('symbolic width')
            if op == '##':
                return self._uint(path, arg, cur, pin=pin)
            if op == '#<=':
                return self._uint(path, _bitlen(arg), cur, hi=arg, pin=pin)
            return self._uint(path, _bitlen(arg - 1), cur, hi=arg - 1, pin=pin)
        if k == 'cond':
            raise TlbError('conditional field outside a constructor')
        if k == 'mul':
            n = self.nat(t[1], env)
            if t[2] == ('id', 'Bit') and type(n) is int:
                return self._bits(path, n, cur)
            raise TlbError(f'unsupported repetition {t}')
        if k == 'id':
            name, args = t[1], []
        elif k == 'app':
            name, args = t[1], t[2]
        else:
            raise TlbError(f'unsupported type expression {t}')
        # type parameters bound in the environment
        if name in env and isinstance(env[name], tuple) and env[name][0] == 'closure':
            _, t2, env2 = env[name]
            return self.type(t2, env2, path, cur, depth)
        # builtins
        if name == '#':
            return self._uint(path, 32, cur, pin=pin)
        m = _PRIM.match(name)
        if m:
            kind, n = m.group(1), int(m.group(2))
            return self._uint(path, n, cur, pin=pin) if kind == 'uint' else (self._int(path, n, cur) if kind == 'int' else self._bits(path, n, cur))
        if name in ('uint', 'int', 'bits') and args:
            n = self.nat(args[0], env)
            if type(n) is not int:
                raise TlbError('symbolic width')
            return self._uint(path, n, cur) if name == 'uint' else (self._int(path, n, cur) if name == 'int' else self._bits(path, n, cur))
        if name == 'Bit':
            return self._uint(path, 1, cur)
        if name == 'Bool':
            return Bool_(self._uint(path, 1, cur))
        if name in ('True', 'Unit'):
            return True
        if name in ('Cell', 'Any'):
            # inline remainder: an arbitrary bit string and references up to the end of the cell (symbolic)
            shapes = [(0, 0), (77, 1), (1, 0), (0, 1)]
            n, nk = shapes[self._choose(path + '*', 'any:bits,refs=' + '/'.join(f'{a},{b}' for a, b in shapes), len(shapes), depth)]
            s = w.bits(self.prefix + 'any:' + path, n)
            cur.bits = cur.bits + s
            kids = [self._cell(path + f'.anyref{i}') for i in range(nk)]
            cur.refs.extend(Raw(c) for c in kids)
            return ('any', s, kids)
        if name in ('VarUInteger', 'VarInteger'):
            n = self.nat(args[0], env)
            L = self.pol.varlen(path, n)
            lbits = _bitlen(n - 1)
            cur.bits = cur.bits + E.uint(L, lbits)
            if L == 0:
                return 0
            v = self._uint(path, 8 * L, cur) if name == 'VarUInteger' else self._int(path, 8 * L, cur)
            kidx = self.pol.varcount - 1
            top = getattr(self.pol, 'top_bit', False) and getattr(self.pol, 'general', None) != kidx
            if getattr(self.pol, 'minimal', False):
                # canonical (minimal) byte length, as serialisers emit it
                if name == 'VarUInteger':
                    w.assume(v >= (1 << (8 * L - 1 if top else 8 * (L - 1))))
                elif L > 1:
                    w.assume(w.Or(v >= (1 << (8 * (L - 1) - 1)), v < -(1 << (8 * (L - 1) - 1))))
                else:
                    w.assume(w.Or(v > 0, v < 0))
            return v
        if name in ('Grams', 'Coins'):
            return self.type(('app', 'VarUInteger', [('nat', 16)]), env, path, cur, depth)
        if name in ('MsgAddressInt', 'MsgAddressExt', 'MsgAddress'):
            return self.address(name, path, cur, depth)
        if name in ('HashmapE', 'Hashmap', 'HashmapAugE', 'HashmapAug'):
            return self.hashmap(name, args, env, path, cur, depth)
        if name == 'Maybe':
            present = self._choose(path + '?', 'maybe', 2, depth)
            cur.bits = cur.bits + E.lit('1' if present else '0')
            return self.type(args[0], env, path, cur, depth) if present else None
        if name == 'Either':
            side = self._choose(path + '|', 'either', 2, depth)
            cur.bits = cur.bits + E.lit('1' if side else '0')
            return ('either', side, self.type(args[side], env, path, cur, depth))
        # schema types
        if name not in self.sch.types:
            raise TlbError(f'unknown type {name}')
        actual = []
        for a in args:
            if self._is_nat_expr(a, env):
                actual.append(self.nat(a, env))
            else:
                actual.append(('closure', a, env))
        cands = []
        for c in self.sch.types[name]:
            b = self._unify(c, actual)
            if b is not None:
                cands.append((c, b))
        if not cands:
            raise TlbError(f'no constructor of {name} matches {actual}')
        if len(cands) > 1:
            idx = self._choose(path + '!' + name, 'cons:' + '/'.join(c.name for c, _ in cands), len(cands), depth)
        else:
            idx = 0
        c, binding = cands[idx]
        rec_ = name in self.stack
        self.stack.append(name)
        self.forced0 += rec_
        try:
            return self.cons(c, binding, path, cur, depth + 1)
        finally:
            self.stack.pop()
            self.forced0 -= rec_

    def _unify(self, c, actual):
        if len(c.rargs) != len(actual):
            return None
        b = {}
        for pat, a in zip(c.rargs, actual):
            if pat[0] == 'nat':
                if type(a) is not int or a != pat[1]:
                    return None
            elif pat[0] in ('id', 'neg'):
                b[pat[1]] = a
            elif pat[0] == 'add' and pat[1][0] == 'id' and pat[2][0] == 'nat':
                if type(a) is not int or a < pat[2][1]:
                    return None
                b[pat[1][1]] = a - pat[2][1]
            else:
                raise TlbError(f'unsupported result pattern {pat}')
        return b

    def cons(self, c, binding, path, cur, depth):
        if c.tag is None:
            raise TlbError(f'constructor {c.name} has an implicit (CRC32) tag; declare it in the supplement')
        cur.bits = cur.bits + E.lit(c.tag)
        fields = [it for it in c.items if it[0] == 'field']
        if c.tag == '' and len(fields) == 1 and fields[0][1] is None and fields[0][2][0] != 'cellref':
            # transparent alias `_ T = Name;` : the value IS the inner value (no extra nesting level)
            return self.type(fields[0][2], dict(binding), path, cur, depth - 1)
        rec = Rec(c.rtype, c.name)
        if c.exotic:
            cur.type_ = int(c.tag[:8], 2)
        env = dict(binding)
        self._items(c.items, env, rec, path, cur, depth, c)
        return rec

    def _refs_later(self, items, idx, name):
        """is field `name` used by a later item as a guard / type argument / width (so that it must be concrete)?"""
        def uses(e):
            if isinstance(e, tuple):
                if e[0] == 'cond' and e[1] == name:
                    return True
                if e[0] in ('id',) and e[1] == name:
                    return True
                return any(uses(x) for x in e[1:])
            if isinstance(e, list):
                return any(uses(x) for x in e)
            return False
        for it in items[idx + 1:]:
            if it[0] == 'field' and uses(it[2]):
                return True
        return False

    def _items(self, items, env, rec, path, cur, depth, c):
        w = self.w
        for idx, it in enumerate(items):
            if it[0] == 'param':
                continue
            if it[0] == 'constraint':
                self._constraint(it, env)
                continue
            _, name, t = it
            fpath = f'{path}.{name}' if name else path + '._'
            if t[0] == 'cellref':
                sub = CellBuf()
                self._items(t[1], env, rec, path, sub, depth, c)
                cur.refs.append(sub.node())
                continue
            if t[0] == 'cond':
                g = env[t[1]]
                if type(g) is not int:
                    raise TlbError(f'guard {t[1]} is symbolic')
                on = (g >> t[2]) & 1 if t[2] is not None else (g != 0)
                if not on:
                    if name:
                        rec.f[name] = None
                    continue
                t = t[3]
            pin = None
            if name and self._refs_later(self._flat(c.items), self._flat_index(c.items, it), name) and self._natlike(t):
                pin = self._pin(fpath, t, env, depth, c, name)
            nrefs = len(cur.refs)
            v = self.type(t, env, fpath, cur, depth, pin=pin)
            if name:
                rec.f[name] = v
                if len(cur.refs) == nrefs + 1:
                    rec.nodes[name] = cur.refs[-1]
                if type(v) is int or hasattr(v, 'e'):
                    env[name] = v
            else:
                if isinstance(v, Rec):
                    rec.f.setdefault('_anon', []).append(v)
                else:
                    rec.f.setdefault('_anon', []).append(v)

    def _flat(self, items):
        out = []
        for it in items:
            if it[0] == 'field' and it[2][0] == 'cellref':
                out.extend(self._flat(it[2][1]))
            else:
                out.append(it)
        return out

    def _flat_index(self, items, it):
        for i, x in enumerate(self._flat(items)):
            if x is it:
                return i
        return -1

    def _natlike(self, t):
        if t[0] == 'natfield':
            return True
        if t[0] == 'id' and (t[1] == '#' or (_PRIM.match(t[1]) and not t[1].startswith('bits'))):
            return True
        return False

    def _pin(self, fpath, t, env, depth, c, name):
        """a field later used as a guard/type parameter: concrete, every admissible small value is a case"""
        if t[0] == 'natfield':
            arg = self.nat(t[2], env)
            hi = (1 << arg) - 1 if t[1] == '##' else (arg if t[1] == '#<=' else arg - 1)
        elif t[1] == '#':
            hi = (1 << 32) - 1
        else:
            hi = (1 << int(_PRIM.match(t[1]).group(2))) - 1
        cands = [v for v in (0, 1, 2, hi) if v <= hi]
        cands = sorted(set(cands))
        ok = []
        for v in cands:
            env2 = dict(env)
            env2[name] = v
            good = True
            for it in self._flat(c.items):
                if it[0] == 'constraint' and self._mentions(it, name):
                    try:
                        r = self._rel(self.nat(it[1], env2), it[2], self.nat(it[3], env2))
                        if type(r) is bool and not r:
                            good = False
                    except TlbError:
                        pass
            if good:
                ok.append(v)
        # keep the pinned domain small: 0,1 and the largest admissible value
        idx = self._choose(fpath + '=', 'pin:' + '/'.join(map(str, ok)), len(ok), depth)
        return ok[idx]

    def _mentions(self, it, name):
        def uses(e):
            if isinstance(e, tuple):
                if e[0] == 'id' and e[1] == name:
                    return True
                return any(uses(x) for x in e[1:])
            return False
        return uses(it[1]) or uses(it[3])

    def _rel(self, a, op, b):
        return {'<=': lambda: a <= b, '>=': lambda: a >= b, '=': lambda: a == b, '<': lambda: a < b, '>': lambda: a > b}[op]()

    def _constraint(self, it, env):
        _, lhs, op, rhs = it

        def has_neg(e):
            return isinstance(e, tuple) and (e[0] == 'neg' or any(has_neg(x) for x in e[1:]))
        if has_neg(lhs) or has_neg(rhs):
            # { ~x + k = e }: defines x = e - k >= 0
            if has_neg(rhs):
                lhs, rhs = rhs, lhs
            if op == '=' and lhs[0] == 'add' and lhs[1][0] == 'neg' and lhs[2][0] == 'nat':
                val = self.nat(rhs, env) - lhs[2][1]
                env[lhs[1][1]] = val
                self.w.assume(val >= 0)
                return
            if op == '=' and lhs[0] == 'neg':
                env[lhs[1]] = self.nat(rhs, env)
                return
            raise TlbError(f'unsupported defining constraint {it}')
        try:
            r = self._rel(self.nat(lhs, env), op, self.nat(rhs, env))
        except TlbError:
            return              # constraint over a field not generated yet (declared before the field): applied when reached
        self.w.assume(r)

    # ---- addresses ----------------------------------------------------------------------------------------------------
    def address(self, name, path, cur, depth):
        w = self.w
        kinds = {'MsgAddressInt': ['std', 'std+anycast'] + (['var'] if self.pol.addr_var else []),
                 'MsgAddressExt': ['none', 'extern', 'extern0'],
                 'MsgAddress': ['std', 'none', 'extern', 'std+anycast']}[name]
        kind = kinds[self._choose(path + '@', 'addr:' + '/'.join(kinds), len(kinds), depth)]
        if kind == 'none':
            cur.bits = cur.bits + E.addr_none()
            return Addr_('none')
        if kind in ('extern', 'extern0'):
            ln = 0 if kind == 'extern0' else 73
            val = w.int(self.prefix + 'v:' + path + '.ext', 0, (1 << ln) - 1) if ln else 0
            cur.bits = cur.bits + E.addr_extern(ln, val)
            return Addr_('extern', len=ln, value=val)
        any_ = None
        if kind == 'std+anycast' or (kind == 'var' and self.pol.prof):
            d = 5
            any_ = (d, w.int(self.prefix + 'v:' + path + '.pfx', 0, (1 << d) - 1))
        if kind.startswith('std'):
            wc = w.int(self.prefix + 'v:' + path + '.wc', -128, 127)
            h = w.bits(self.prefix + 'b:' + path + '.hash', 256)
            cur.bits = cur.bits + E.addr_std(wc, h, any_)
            return Addr_('std', wc=wc, hash=h, anycast=any_)
        wc = w.int(self.prefix + 'v:' + path + '.wc', -(1 << 31), (1 << 31) - 1)
        ln = 100
        b = w.bits(self.prefix + 'b:' + path + '.addr', ln)
        s = E.lit('11') + (E.lit('0') if any_ is None else E.lit('1') + E.uint(any_[0], 5) + E.uint(any_[1], any_[0]))
        cur.bits = cur.bits + s + E.uint(ln, 9) + E.int_(wc, 32) + b
        return Addr_('var', wc=wc, len=ln, bits=b, anycast=any_)

    # ---- dictionaries -------------------------------------------------------------------------------------------------
    def hashmap(self, name, args, env, path, cur, depth):
        """shapes: empty (E forms only) | one leaf | two leaves forking at the root edge (label of length 0 and of length > 0).
        keys are concrete (they select the shape), values/extras are symbolic values of the schema types."""
        n = self.nat(args[0], env)
        if type(n) is not int:
            raise TlbError('symbolic key width')
        aug = name.startswith('HashmapAug')
        is_e = name.endswith('E')
        vt = args[1]
        et = args[2] if aug else None
        shapes = (['empty'] if is_e else []) + ['one', 'two', 'two0']
        shape = shapes[self._choose(path + '#', 'dict:' + '/'.join(shapes), len(shapes), depth)]
        d = Dict_(n, [], aug)
        if is_e:
            cur.bits = cur.bits + E.lit('0' if shape == 'empty' else '1')
        if shape == 'empty':
            if aug:
                d.root_extra = self.type(et, env, path + '.extra', cur, depth)
            return d
        root = CellBuf() if is_e else cur
        d.inline = not is_e
        if shape == 'one':
            key = (0x5A5A5A5A5A5A5A5A5A5A5A5A5A5A5A5A5A5A5A5A5A5A5A5A5A5A5A5A5A5A5A5A5A5A5A5A5A5A5A5A5A5A5A5A5A5A5A5A5A5A5A5A >> 3) & ((1 << n) - 1)
            self._edge(root, key, n, n, vt, et, env, path + '[0]', depth, d)
        else:
            # common prefix of length p, then a fork; the two remaining labels have length n-p-1
            p = 0 if shape == 'two0' or n < 3 else min(5, n - 2)
            pfx = 0b10110 >> (5 - p) if p else 0
            self._label(root, pfx, p, n)
            m = n - p - 1
            kids = []
            for b in (0, 1):
                kid = CellBuf()
                sub = ((0x3C3C3C3C3C3C3C3C3C3C3C3C3C3C3C3C3C3C3C3C3C3C3C3C3C3C3C3C3C3C3C3C3C3C3C3C3C3C3C3C3C3C3C3C3C3C >> b) & ((1 << m) - 1)) if m else 0
                key = (((pfx << 1) | b) << m) | sub
                self._edge(kid, sub, m, m, vt, et, env, f'{path}[{b}]', depth, d, full_key=key)
                kids.append(kid.node())
            root.refs.extend(kids)
            if aug:
                d.fork_extra = self.type(et, env, path + '.forkextra', root, depth)
        if is_e:
            cur.refs.append(root.node())
            d.root_node = cur.refs[-1]
            if aug:
                d.root_extra = self.type(et, env, path + '.extra', cur, depth)
        return d

    def _label(self, cur, bits, ln, m):
        """canonical label (dict.cpp) of `ln` bits with value `bits` when m key bits remain"""
        from vf.spec import hashmap as SH
        s = format(bits, f'0{ln}b') if ln else ''
        cur.bits = cur.bits + E.lit(SH.label_bits(s, m))

    def _edge(self, cur, label, ln, m, vt, et, env, path, depth, d, full_key=None):
        self._label(cur, label, ln, m)
        extra = None
        if d.aug:
            extra = self.type(et, env, path + '.extra', cur, depth)
        v = self.type(vt, env, path, cur, depth)
        d.entries.append((label if full_key is None else full_key, v, extra))


def generate(w, typename, args=(), policy=None, path='', cell_factory=None, prefix=''):
    """(Node, value) for a value of the schema type `typename args` under the policy"""
    g = Gen(w, policy or Policy(), cell_factory, prefix=prefix)
    cur = CellBuf()
    t = ('app', typename, [('nat', a) if type(a) is int else a for a in args]) if args else ('id', typename)
    v = g.type(t, {}, path or typename, cur, 0)
    cur.node()          # capacity of the top-level cell
    return cur, v, g


# =====================================================================================================================
# enumeration of the finite case split of a type: its own choice points
# =====================================================================================================================

class _DryWorld:
    symbolic = False

    def int(self, name, lo=None, hi=None):
        return lo if lo is not None else 0

    def bits(self, name, n):
        return Seq.from_int(0, n) if n else Seq()

    def choice(self, name, values):
        return list(values)[0]

    def assume(self, c):
        pass

    def Or(self, *a):
        return True

    def And(self, *a):
        return True


EXHAUSTIVE = {}          # (type, args) -> were the own choice combinations enumerated exhaustively (else covering sample)


def own_cases(typename, args=(), cap=40, seed=1, addr_var=False):
    """combinations of the type's OWN choice points (constructor alternative, Maybe/Either/conditional guards/pinned
    parameters/dictionary shapes/address kinds/alternatives of direct fields, reached before entering the fields of another
    named constructor).  Returns a list of dicts path->index.  Exhaustive when the product is at most `cap`; otherwise:
    all-first, all-last, and seeded random combinations such that every (choice point, alternative) pair occurs at least
    twice (the thinning is reported by the harness)."""
    import random

    class Budget(Exception):
        pass
    runs = [0]

    def run(own, chooser=None):
        rec = []
        pol = Policy(own=own, prof=0, recorder=rec)
        pol.addr_var = addr_var
        if chooser is not None:
            base = pol.choose

            def choose(path, kind, n, depth):
                if path not in pol.own and depth <= 1:
                    pol.own[path] = chooser(path, n)
                    rec.append((path, kind, n))
                    return pol.own[path]
                return base(path, kind, n, depth)
            pol.choose = choose
        runs[0] += 1
        try:
            generate(_DryWorld(), typename, args, pol, cell_factory=lambda p: object())
        except DoesNotFit:
            pass
        return rec, pol.own

    results = []

    def dfs(own):
        if runs[0] > 3 * cap + 60:
            raise Budget()
        rec, _ = run(dict(own))
        new = [(p, k, n) for (p, k, n) in rec if p not in own]
        if not new:
            results.append(dict(own))
            return
        p, k, n = new[0]
        for i in range(n):
            o = dict(own)
            o[p] = i
            dfs(o)
    try:
        dfs({})
        if len(results) <= cap:
            EXHAUSTIVE[(typename, tuple(args))] = True
            return results
    except Budget:
        pass
    EXHAUSTIVE[(typename, tuple(args))] = False
    rnd = random.Random(seed)
    keep = {}
    arity = {}

    def add(chooser):
        rec, own = run({}, chooser)
        for p, k, n in rec:
            arity[p] = n
        keep[tuple(sorted(own.items()))] = dict(own)
    add(lambda p, n: 0)
    add(lambda p, n: n - 1)
    for _ in range(cap // 2):
        add(lambda p, n: rnd.randrange(n))
    # every (choice point, alternative) at least twice
    for _round in range(6):
        count = {}
        for o in keep.values():
            for kv in o.items():
                count[kv] = count.get(kv, 0) + 1
        missing = [(p, i) for p, n in arity.items() for i in range(n) if count.get((p, i), 0) < 2]
        if not missing or len(keep) > 3 * cap:
            break
        for p0, i0 in missing:
            add(lambda p, n, p0=p0, i0=i0: (i0 % n) if p == p0 else rnd.randrange(n))
    return list(keep.values())


def fits(typename, args, own, prof, rot, addr_var=False):
    pol = Policy(own=dict(own), prof=prof, rot=rot)
    pol.addr_var = addr_var
    try:
        generate(_DryWorld(), typename, args, pol, cell_factory=lambda p: object())
        return True
    except DoesNotFit:
        return False


def count_var_fields(typename, args, own):
    class P(Policy):
        pass
    best = 0
    for prof in (0, 1):
        pol = P(own=dict(own), prof=prof)
        try:
            generate(_DryWorld(), typename, args, pol, cell_factory=lambda p: object())
        except TlbError:
            pass
        best = max(best, pol.varcount)
    return best


def max_var_n(typename, args=()):
    """largest VarUInteger/VarInteger bound met while generating (rotation count needed so every field takes every length)"""
    seen = [1]

    class P(Policy):
        def varlen(self, path, n):
            seen.append(n)
            return 0
    for prof in (0, 1):
        try:
            generate(_DryWorld(), typename, args, P(prof=prof), cell_factory=lambda p: object())
        except TlbError:
            pass
    return max(seen)
