"""TL-B primitive encodings (block.tlb / tvm.pdf), written independently of the library, polymorphic over concrete
ints and symbolic values.  Every function returns a vf.bits.Seq (the exact bit string the schema prescribes)."""
from vf.bits import Seq, Val
from vf.sym import SymInt, SymBool, wrap_int, ite
import z3


def _v(x):
    return x.e if type(x) is SymInt else x


def uint(v, n):
    """uintN: n-bit big-endian unsigned; caller guarantees 0 <= v < 2^n"""
    return Seq([Val(n, _v(v))]) if n else Seq()


def int_(v, n):
    """intN: two's complement big-endian; caller guarantees -2^(n-1) <= v < 2^(n-1)"""
    if type(v) is SymInt:
        return Seq([Val(n, z3.simplify(z3.If(v.e < 0, v.e + (1 << n), v.e)))])
    return Seq([Val(n, v % (1 << n))])


def bit(b):
    if type(b) is SymBool:
        return Seq([Val(1, z3.If(b.e, 1, 0))])
    return Seq([Val(1, _v(b) if type(b) is SymInt else int(bool(b)))])


def lit(s):
    return Seq.from_01(s)


def var_uint(v, L, lbits):
    """VarUInteger: len:(#< 2^lbits) value:(uint (len*8)) with the MINIMAL len; L is that minimal byte length
    (the caller case-splits on L and constrains v to the class: L=0 <=> v=0, else 2^(8(L-1)) <= v < 2^(8L))"""
    return uint(L, lbits) + (uint(v, 8 * L) if L else Seq())


def var_int(v, L, lbits):
    """VarInteger: len then int(len*8), minimal len: L=0 <=> v=0, else v fits int(8L) and not int(8(L-1))"""
    return uint(L, lbits) + (int_(v, 8 * L) if L else Seq())


def in_var_uint_class(v, L):
    if L == 0:
        return v == 0
    return (v >= (1 << (8 * (L - 1)))) & (v < (1 << (8 * L))) if type(v) is not int else (1 << (8 * (L - 1))) <= v < (1 << (8 * L))


def fits_int(v, n):
    if n == 0:
        return v == 0
    if type(v) is int:
        return -(1 << (n - 1)) <= v < (1 << (n - 1))
    from vf.sym import sym_and
    return sym_and(v >= -(1 << (n - 1)), v < (1 << (n - 1)))


def fits_uint(v, n):
    if type(v) is int:
        return 0 <= v < (1 << n)
    from vf.sym import sym_and
    return sym_and(v >= 0, v < (1 << n))


def addr_none():
    return lit('00')


def addr_extern(length, value):
    """addr_extern$01 len:(## 9) external_address:(bits len)"""
    return lit('01') + uint(length, 9) + (uint(value, length) if length else Seq())


def addr_std(wc, hash_seq, anycast=None):
    """addr_std$10 anycast:(Maybe Anycast) workchain_id:int8 address:bits256
       anycast_info$_ depth:(#<= 30) { depth >= 1 } rewrite_pfx:(bits depth)   (#<= 30 is 5 bits)"""
    s = lit('10')
    if anycast is None:
        s = s + lit('0')
    else:
        depth, pfx = anycast
        s = s + lit('1') + uint(depth, 5) + uint(pfx, depth)
    return s + int_(wc, 8) + hash_seq
