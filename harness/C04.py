"""C04 — emitted bag-of-cells bytes conform to the TON BoC wire format.

Deductive: Cell.serialize; the whole of to_boc on every DAG shape with up to 3 cells (contents symbolic, lengths symbolic)
under every option set: the bytes equal the specification encoding (vf/spec/boc.py) of the DAG in the emitted order;
header widths for ARBITRARY cell counts / payload sizes / reference indexes (the function is split mechanically after
the statement that fixes the cell count and continued from a havoced state).  The ordering algorithm itself (topological,
every distinct cell once, for every DAG) is an induction over unbounded DAGs and is a bounded stand-in (exhaustive
shapes up to 5 cells + random + size boundaries) against the strict decoder of the specification.
"""
import importlib
import itertools
import os
from vf.engine import obligation
from vf.spec import boc as SB, cell as SC, enc as E
from vf.bits import Seq
from harness.common import call, is_error, same_objects, abstract_child, bits_of

C = 'pytoniq_core.boc.cell.Cell.'
CRCASSUME = 'crc32c used through its contract (proved in C18): a deterministic function of the byte string'
OPTS = [dict(has_idx=i, hash_crc32=c, has_cache_bits=k) for i, c, k in
        [(False, False, False), (False, True, False), (True, False, False), (True, True, False), (True, False, True), (True, True, True)]]


def mk_cell(w, name, kids, ident, m8=None, type_=-1):
    """real Cell over symbolic data of length 8q+m8 and the given children; given a distinct CONCRETE identity hash so
    that it can be a dictionary key (order/to_boc use the hash only as key)"""
    from pytoniq_core.boc.cell import Cell
    from pytoniq_core.boc.tvm_bitarray import TvmBitarray
    m8 = w.choice(f'{name}.m8', [0, 5]) if m8 is None else m8
    q = w.int(f'{name}.q', 0, 100)
    b = 8 * q + m8
    bits = w.bits(f'{name}.D', b)
    c = Cell(w.mk_bitarray(TvmBitarray, bits, 1023), list(kids), type_)
    if w.symbolic:
        c._hash = bytes([ident]) * 32
    c._vf = dict(bits=bits, b=b, m8=m8, kids=list(kids))
    return c


def spec_cell_bytes(w, c, idx_of, k):
    v = c._vf
    r = len(v['kids'])
    s = E.uint(SC.d1(r, c.type_ != -1, c.level_mask.mask), 8) + E.uint(SC.d2(v['b']), 8) + SC.pad(v['bits'], v['m8'])
    for kid in v['kids']:
        s = s + E.uint(idx_of(kid), 8 * k)
    return s


@obligation('C04.serialize', 'C04', cases=[{'r': r, 'k': k} for r in range(5) for k in (1, 2, 3, 4)], fuc=[C + 'serialize'],
            descr='Cell.serialize(indexes, k) = d1 d2 pad(bits) ++ index(ref_i) as k bytes each, for symbolic data of every length, '
                  'r children with arbitrary indexes < 256^k')
def serialize(w, r, k):
    from harness.C08 import IdMap
    kids = [abstract_child(w, f'k{i}')[0] for i in range(r)]
    for kd in kids:
        w.assume(kd._depths[0] <= 1021)
    c = mk_cell(w, 'c', kids, 1)
    idx = [w.int(f'idx{i}', 0, (1 << (8 * k)) - 1) for i in range(r)]

    class M(IdMap):
        def __getitem__(self, key):
            return idx[IdMap.__getitem__(self, key)]
    kk, got = call(c.serialize, M(kids), k)
    w.claim('does not raise', kk == 'ok')
    if kk == 'ok':
        want = spec_cell_bytes(w, c, lambda kid: idx[[i for i, x in enumerate(kids) if x is kid][0]], k)
        w.claim('descriptors, padded data, reference indexes', w.eq_seq(w.bytes_seq(got), want))


GRAPHS = {
    'single': {0: []},
    'chain2': {0: [1], 1: []},
    'twice': {0: [1, 1], 1: []},
    'fan2': {0: [1, 2], 1: [], 2: []},
    'chain3': {0: [1], 1: [2], 2: []},
    'diamond': {0: [1, 2], 1: [2], 2: []},
    'diamond_rev': {0: [2, 1], 1: [2], 2: []},
    'twice_deep': {0: [1, 1], 1: [2], 2: []},
    'reach_again': {0: [1, 2], 1: [3], 2: [1], 3: []},
}
SHAPES = {k: (lambda w, g=g: _dag(w, g)) for k, g in GRAPHS.items()}


def _dag(w, g, m8f=None):
    cells = {}

    def build(i):
        if i not in cells:
            for j in g[i]:
                build(j)
            cells[i] = mk_cell(w, f'c{i}', [cells[j] for j in g[i]], i + 1, m8=(m8f(i) if m8f else None))
    for i in g:
        build(i)
    return cells, g


def spec_boc(w, order, cells, opts, crc_fn):
    """specification encoding of the DAG with the cells in the given order (list of cells, root first)"""
    n = len(order)
    size = max(1, (n.bit_length() + 7) // 8)
    pos = lambda c: [i for i, x in enumerate(order) if x is c][0]
    payload = Seq()
    ends = []
    for c in order:
        payload = payload + spec_cell_bytes(w, c, pos, size)
        ends.append(payload.length() // 8 if type(payload.length()) is int else _len8(w, payload))
    tot = ends[-1]
    return n, size, payload, ends, tot


def _len8(w, seq):
    from vf.sym import mk_int
    n = seq.length()
    return mk_int(n / 8) if not isinstance(n, int) else n // 8


@obligation('C04.to_boc.small', 'C04', cases=[{'shape': s, 'opt': i} for s in SHAPES for i in range(len(OPTS))],
            fuc=[C + 'to_boc', C + 'serialize', C + 'order'], assumes=[CRCASSUME],
            descr='BOUNDED in the number of cells (every DAG shape with <= 3 cells incl. sharing, and a 4-cell shape where a shared inner cell is reached again), contents and data lengths '
                  'symbolic, all 6 valid option sets: to_boc output == specification encoding: header (magic, flag byte, size, '
                  'off_bytes, counts, root 0), index = CUMULATIVE end offsets (x2 with cache bits) wide enough, cell data in a '
                  'topological order with every cell once, CRC-32C (little-endian) over everything before it')
def to_boc_small(w, shape, opt):
    cells, g = SHAPES[shape](w)
    _check_to_boc(w, cells[0], list(cells.values()), OPTS[opt])


def _check_to_boc(w, root, cells, o, tag=''):
    """to_boc(root) against the specification encoding of the DAG `cells` (list of all its distinct cells)"""
    M = importlib.import_module('pytoniq_core.boc.cell')

    def crc(data, *a):
        return w.uf('crc32c', w.bytes_seq(data))
    with w.stub(M, 'crc32c', crc):
        k, out = call(root.to_boc, **o)
    w.claim(f'{tag}to_boc does not raise ({out if k != "ok" else ""})', k == 'ok')
    if k != 'ok':
        return
    order = list(root.order({}).keys())
    n = len(cells)
    w.claim(f'{tag}every distinct cell exactly once', len(order) == n and all(any(x is c for x in order) for c in cells))
    w.claim(f'{tag}root first', order[0] is root)
    pos = {id(c): i for i, c in enumerate(order)}
    w.claim(f'{tag}references point only to later cells', all(pos[id(k_)] > pos[id(c)] for c in order for k_ in c._vf['kids']))
    n, size, payload, ends, tot = spec_boc(w, order, cells, o, crc)
    has_cache = o['has_cache_bits']
    top = tot * 2 + 1 if has_cache else tot
    # off_bytes: the emitted width (byte 5) must be able to hold every index entry and the total size
    raw = w.bytes_seq(out)
    head, rest = raw.take_front(48)
    off_b = w.val(head.take_front(48)[0].take_back(8)[1])
    if w.symbolic and type(off_b) is not int:
        off = w.c.concretise(off_b.e, 'off_bytes')
    else:
        off = int(off_b)
    w.claim(f'{tag}off_bytes in 1..8', 1 <= off <= 8)
    w.claim(f'{tag}off_bytes wide enough for the total size and every index entry', top < (1 << (8 * off)))
    hdr = SB.header('generic', size, off, n, 1, 0, tot, [0], o['has_idx'], o['hash_crc32'], has_cache)
    body = hdr
    if o['has_idx']:
        # the cache bit may be 0 or 1; compare the entries modulo that bit
        got_idx, after = raw.take_front(hdr.length())[1].take_front(8 * off * n)
        gi = got_idx
        for i in range(n):
            ent, gi = gi.take_front(8 * off)
            v = w.val(ent)
            if has_cache:
                w.claim(f'{tag}index[{i}] == 2 * cumulative end offset (+ cache bit)', w.Or(v == 2 * ends[i], v == 2 * ends[i] + 1))
            else:
                w.claim(f'{tag}index[{i}] == cumulative end offset', v == ends[i])
        body = body + got_idx
    body = body + payload
    if o['hash_crc32']:
        body = body + w.bytes_seq(w.uf('crc32c', body))
    w.claim(f'{tag}whole output == specification encoding', w.eq_seq(raw, body))


def concrete_len_cell(w, name, n, refs, ident):
    """real Cell with CONCRETE data length n, symbolic contents, concrete identity hash"""
    from pytoniq_core.boc.cell import Cell
    from pytoniq_core.boc.tvm_bitarray import TvmBitarray
    bits = w.bits(name, n)
    c = Cell(w.mk_bitarray(TvmBitarray, bits, 1023), list(refs))
    if w.symbolic:
        c._hash = bytes([ident]) * 32
    c._vf = dict(bits=bits, b=n, m8=n % 8, kids=list(refs))
    return c


@obligation('C04.shared_object', 'C04', cases=[{'opt': i} for i in (0, 2, 5)], fuc=[C + 'to_boc', C + 'serialize', C + 'order'],
            assumes=[CRCASSUME],
            descr='history independence of to_boc: ONE cell object (with a child) is serialised inside two different bags, where it and '
                  'its child get different cell numbers, then on its own, then in the first bag again: each output equals the '
                  'specification encoding of that bag (state kept on a cell object between calls - serialised bytes with the '
                  'reference indexes of an earlier bag - would show here); contents symbolic')
def shared_object(w, opt):
    payload = concrete_len_cell(w, 'payload', 13, [], 1)
    mid = concrete_len_cell(w, 'mid', 8, [payload], 2)
    x, y = concrete_len_cell(w, 'x', 5, [], 3), concrete_len_cell(w, 'y', 16, [], 4)
    bag1 = concrete_len_cell(w, 'root1', 3, [x, y, mid], 5)          # mid late: numbers 3 / 4
    bag2 = concrete_len_cell(w, 'root2', 7, [mid, x], 6)             # mid early: numbers 1 / 2
    for nm, root, cells in (('first bag: ', bag1, [bag1, x, y, mid, payload]), ('second bag: ', bag2, [bag2, mid, x, payload]),
                            ('the shared cell alone: ', mid, [mid, payload]), ('first bag again: ', bag1, [bag1, x, y, mid, payload])):
        _check_to_boc(w, root, cells, OPTS[opt], nm)


@obligation('C04.maxcell', 'C04', cases=[{'n': n, 'opt': i} for n in (1015, 1016, 1017, 1023) for i in (0, 5)],
            fuc=[C + 'to_boc', C + 'serialize'], assumes=[CRCASSUME],
            descr='cells at the upper end of the data capacity (1015, 1016, 1017, 1023 bits: 127 / 128 data bytes with and without a '
                  'completion tag) with a child and a sibling: to_boc output == specification encoding; contents symbolic')
def maxcell(w, n, opt):
    leaf = concrete_len_cell(w, 'leaf', 9, [], 1)
    big = concrete_len_cell(w, 'big', n, [leaf], 2)
    root = concrete_len_cell(w, 'root', 3, [big, leaf], 3)
    _check_to_boc(w, root, [root, big, leaf], OPTS[opt])


@obligation('C04.widths', 'C04', cases=[{'opt': i} for i in range(len(OPTS))], fuc=[C + 'to_boc', C + 'serialize'],
            assumes=[CRCASSUME],
            descr='UNBOUNDED counts: to_boc is split mechanically after the statement that fixes the number of cells; from there the '
                  'cell count N (1..2^32-1) and the reference indexes (< N) are HAVOCED: the size field fits N, every reference '
                  'index fits `size` bytes (no OverflowError, no silent narrowing), header counts are written with `size` bytes, '
                  'and off_bytes fits the payload length (x2+1 with cache bits)')
def widths(w, opt):
    from vf import loopcut
    M = importlib.import_module('pytoniq_core.boc.cell')
    o = OPTS[opt]
    leaf = mk_cell(w, 'leaf', [], 2, m8=0)
    root = mk_cell(w, 'root', [leaf], 1, m8=0)
    try:
        segs, info = loopcut.cut(M, 'Cell.to_boc', split_after=['cells_num'])
    except loopcut.LoopNotFound as e:
        from vf.sym import Unsupported
        from vf.engine import Skip
        if not w.symbolic:
            raise Skip()        # natively this fragment-based obligation has nothing to run: no verdict
        raise Unsupported(f'loop cut: {e}')
    args = dict(self=root, flags=0, **o)
    r0 = segs[0][1](args)
    L = dict(r0[-1])
    N = w.int('N', 2, (1 << 32) - 1)
    L['cells_num'] = N
    ir = w.int('idx_root', 0, 0)
    il = w.int('idx_leaf', 1, (1 << 32) - 1)
    w.assume(il < N)
    dict_names = [k_ for k_, v in L.items() if isinstance(v, dict) and len(v) == 2 and all(x in (0, 1) for x in v.values())]
    if len(dict_names) != 1:
        from harness.common import no_verdict
        no_verdict(w, 'the cell->index map is not among the locals at the cut')

    def crc(data, *a):
        return w.uf('crc32c', w.bytes_seq(data))
    L[dict_names[0]] = {root: ir, leaf: il}
    with w.stub(M, 'crc32c', crc):
        k, out = call(loopcut.run_concrete, segs[1:], L)
    w.claim(f'no exception for any cell count / index ({out if k != "ok" else ""})', k == 'ok')
    if k != 'ok':
        return
    raw = w.bytes_seq(out)
    size = N.bit_length() if False else None
    # size = minimal byte count holding N ... any width 1..4 that holds N is admissible; read the emitted one
    fl = w.val(raw.take_front(40)[0].take_back(8)[1])
    size_e = fl % 8
    size_c = w.c.concretise(size_e.e, 'size') if w.symbolic and type(size_e) is not int else int(size_e)
    w.claim('size in 1..4', 1 <= size_c <= 4)
    w.claim('size field fits the cell count', N < (1 << (8 * size_c)))
    w.claim('flag byte: options and size', fl == (128 if o['has_idx'] else 0) + (64 if o['hash_crc32'] else 0) + (32 if o['has_cache_bits'] else 0) + size_c)
    off_b = w.val(raw.take_front(48)[0].take_back(8)[1])
    off = w.c.concretise(off_b.e, 'off') if w.symbolic and type(off_b) is not int else int(off_b)
    rest = raw.take_front(48)[1]
    cnt, rest = rest.take_front(8 * size_c)
    w.claim('cells field == N', w.val(cnt) == N)
    roots, rest = rest.take_front(8 * size_c)
    w.claim('roots field == 1', w.val(roots) == 1)
    absent, rest = rest.take_front(8 * size_c)
    w.claim('absent field == 0', w.val(absent) == 0)
    tot, rest = rest.take_front(8 * off)
    # payload: root cell (2 + data + size) then leaf (2 + data)
    want_tot = (2 + root._vf['b'] // 8 + size_c) + (2 + leaf._vf['b'] // 8)
    w.claim('tot_cells_size == bytes of cell data', w.val(tot) == want_tot)
    top = want_tot * 2 + 1 if o['has_cache_bits'] else want_tot
    w.claim('off_bytes fits total size and index entries', top < (1 << (8 * off)))
    rl, rest = rest.take_front(8 * size_c)
    w.claim('root index 0', w.val(rl) == 0)
    if o['has_idx']:
        _, rest = rest.take_front(2 * 8 * off)
    head_len = raw.length() - rest.length() if isinstance(raw.length(), int) else None
    rc = spec_cell_bytes(w, root, lambda kid: il, size_c)
    lc = spec_cell_bytes(w, leaf, None, size_c)
    want_rest = rc + lc
    if o['hash_crc32']:
        n_head = 48 + 8 * (3 * size_c + off + size_c) + (2 * 8 * off if o['has_idx'] else 0)
        head = raw.take_front(n_head)[0]
        want_rest = want_rest + w.bytes_seq(w.uf('crc32c', head + rc + lc))
    w.claim('cell data: root cell carries the leaf index in `size` bytes, then the leaf; CRC over everything before it',
            w.eq_seq(rest, want_rest))


# ---- bounded: ordering over all DAG shapes ----------------------------------------------------------------------------------

def _native_dag(g, rng=None, salt=0):
    from pytoniq_core.boc.builder import Builder
    cells = {}
    for i in sorted(g, reverse=True):
        b = Builder().store_uint(i * 7 + salt, 16)
        if rng is not None and rng.random() < 0.5:
            b.store_uint(rng.getrandbits(9), 9)
        for j in g[i]:
            b.store_ref(cells[j])
        cells[i] = b.end_cell()
    return cells


def _struct(c):
    return (c.bits.to01(), c.type_ != -1, tuple(_struct(r) for r in c.refs))


def _check_boc(w, root, label):
    for o in OPTS:
        data = root.to_boc(**o)
        try:
            roots = SB.decode(data)
        except SB.FormatError as e:
            w.claim(f'{label} {o}: strict decoder rejects the emitted bytes: {e}', False)
            return False
        if len(roots) != 1 or roots[0].struct() != _struct(root):
            w.claim(f'{label} {o}: decodes to a different DAG', False)
            return False
    return True


@obligation('C04.order.exhaustive', 'C04', kind='bounded', cases=[{'n': n} for n in (1, 2, 3, 4, 5)], samples=1,
            fuc=[C + 'order', C + 'to_boc'],
            descr='bounded, exhaustive: EVERY rooted DAG shape with n <= 5 distinct cells and up to 2 references per cell (all '
                  'reference tuples to later cells, incl. repeated references; n=5: every 3rd shape in the quick tier) x 6 option sets: '
                  'the emitted bytes are accepted by the strict specification decoder (topological order, every cell once, '
                  'cumulative index, CRC) and decode to the same DAG')
def order_exhaustive(w, n):
    count = 0
    choices = []
    for i in range(n):
        later = list(range(i + 1, n))
        opts = [()] + [(a,) for a in later] + [(a, b) for a in later for b in later]
        choices.append(opts)
    full = os.environ.get('VERIF_TIER') == 'thorough'
    for t, combo in enumerate(itertools.product(*choices)):
        g = {i: list(combo[i]) for i in range(n)}
        reach, todo = {0}, [0]
        while todo:
            for j in g[todo.pop()]:
                if j not in reach:
                    reach.add(j)
                    todo.append(j)
        if len(reach) != n:
            continue
        count += 1
        if n == 5 and not full and count % 3:
            continue
        cells = _native_dag(g)
        if not _check_boc(w, cells[0], f'shape {g}'):
            return
    w.used['shapes'] = count
    w.claim(f'all {count} DAG shapes with {n} cells conform', True)


@obligation('C04.order.random', 'C04', kind='bounded', samples=40, fuc=[C + 'order', C + 'to_boc'],
            descr='bounded, random: DAGs of 6..40 cells with up to 4 references (sharing, repeated references), plus the size '
                  'boundaries of the header fields: exactly 255 / 256 / 257 cells and payloads around 255/256 and 65535/65536 bytes')
def order_random(w):
    rng = w.rng
    t = rng.random()
    if t < 0.25:
        n = rng.choice([255, 256, 257])
        g = {i: ([i + 1] if i + 1 < n else []) + ([rng.randrange(i + 1, n)] if i + 2 < n and rng.random() < 0.3 else []) for i in range(n)}
        # keep depth small: make it a wide tree instead of a chain
        g = {i: [j for j in (4 * i + 1, 4 * i + 2, 4 * i + 3, 4 * i + 4) if j < n] for i in range(n)}
    else:
        n = rng.randrange(6, 41)
        g = {}
        for i in range(n):
            later = list(range(i + 1, n))
            k = rng.randrange(0, min(4, len(later)) + 1) if later else 0
            g[i] = [rng.choice(later) for _ in range(k)]
        for j in range(1, n):           # make everything reachable
            if not any(j in g[i] for i in range(j)):
                p = rng.randrange(0, j)
                if len(g[p]) < 4:
                    g[p].append(j)
                else:
                    g[p][rng.randrange(4)] = j
        reach, todo = {0}, [0]
        while todo:
            for j in g[todo.pop()]:
                if j not in reach:
                    reach.add(j)
                    todo.append(j)
        g = {i: g[i] for i in reach}
        ren = {old: new for new, old in enumerate(sorted(g))}
        g = {ren[i]: [ren[j] for j in g[i]] for i in g}
    w.used['n'] = len(g)
    cells = _native_dag(g, rng)
    _check_boc(w, cells[0], f'random DAG with {len(g)} cells')
    w.claim('done', True)
