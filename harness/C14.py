"""C14 — TL serialisation inverts TL parsing and follows TL framing for the bundled schemas.

The three schema files are DATA: they are read on every run by an independent reader (vf/spec/tl.py) and by the library's
generator; values are symbolic.  Per constructor whose field types the library's data model can express, and per shape (flag
subsets, string/bytes length classes around 253/254 and the 4-byte padding residues, vector lengths 0..2, nested and boxed
alternatives): serialize(schema, v) == the TL binary encoding of v, and deserialize(encoding) == (v, len(encoding)).
"""
import importlib
import itertools
from vf.engine import obligation
from vf.spec import tl as ST, cell as SC
from vf.bits import Seq
from harness.common import call, is_error

G = 'pytoniq_core.tl.generator.'
_U = None


def U():
    global _U
    if _U is None:
        _U = ST.Universe(ST.read_schemas())
    return _U


_LIB = []


def lib(auto=False):
    M = importlib.import_module('pytoniq_core.tl.generator')
    if not _LIB or _LIB[0][0] is not M:
        _LIB[:] = [(M, M.TlGenerator.with_default_schemas().generate())]
    s = _LIB[0][1]
    s._auto_deserialize = auto
    return M, s


LENS = [0, 1, 2, 3, 4, 252, 253, 254, 255, 256, 257, 1000, 5000]
# symbolic lengths: n = 4q + r, r fixed (it decides the padding), q symbolic within the framing class
SYM_LENS = [('short', r) for r in range(4)] + [('long', r) for r in range(4)]


class Shape:
    """concrete shape choices of one case, consumed in generation order (rotating)"""

    def __init__(self, rot, flags=None, symlen=None):
        self.rot, self.flags, self.k = rot, flags or {}, 0
        self.symlen = symlen          # index into SYM_LENS: top-level bytes fields get a SYMBOLIC length of that class

    def next(self, n):
        v = (self.rot + 3 * self.k) % n
        self.k += 1
        return v


def gen(w, t, path, sh, depth=0):
    """(library value, expected parse result, encoding Seq) of a value of TL type t"""
    u = U()
    if t == 'int':
        v = w.int(path, -(1 << 31), (1 << 31) - 1)
        return v, v, ST.le_int(v, 4)
    if t == 'long':
        v = w.int(path, -(1 << 63), (1 << 63) - 1)
        return v, v, ST.le_int(v, 8)
    if t in ('int128', 'int256'):
        n = ST.FIXED[t]
        b = w.bytes(path, n)
        hx = b.hex()
        return hx, hx, w.bytes_seq(b)
    if t == 'Bool':
        b = [False, True][sh.next(2)]
        return b, b, Seq.from_bytes(ST.BOOL_TRUE if b else ST.BOOL_FALSE)
    if t in ('bytes', 'string'):
        if sh.symlen is not None and depth <= 1 and t == 'bytes':
            cls_, r = SYM_LENS[sh.symlen]
            q = w.int(path + '.q', 0, 63 if cls_ == 'short' else (1 << 22) - 1)
            n = 4 * q + r
            w.assume(n <= 253 if cls_ == 'short' else n >= 254)
            b = w.bytes(path, n)
            return b, b, ST.frame_sym(w, w.bytes_seq(b), n, cls_, r)
        n = LENS[sh.next(len(LENS))]
        if depth > 1:
            n = min(n, 257)
        b = w.bytes(path, n)
        if t == 'string':
            if not w.symbolic:
                # natively: valid UTF-8 text with 1-, 2-, 3- and 4-byte characters (character count != byte count), about n bytes
                pal = 'az09 _-\u00fc\u00df\u0416\u20ac\u4e2d\U0001F600'
                txt, used = [], 0
                for x in b:
                    ch = pal[x % len(pal)]
                    k = len(ch.encode())
                    if used + k > n:
                        ch, k = 'x', 1
                        if used + k > n:
                            break
                    txt.append(ch)
                    used += k
                val = ''.join(txt) + 'x' * (n - used)
                b = val.encode()
            else:
                val = b.decode()
        else:
            val = b
        return val, val, ST.frame(w, w.bytes_seq(b), n)
    if t.startswith('(vector '):
        sub = t[8:-1]
        n = sh.next(3)
        vals, exps, s = [], [], ST.le_uint(n, 4)
        for i in range(n):
            v, e, q = gen(w, sub, f'{path}[{i}]', sh, depth + 1)
            if isinstance(e, dict) and ST.is_bare_name(sub):
                e = {k: x for k, x in e.items() if k != '@type'}       # bare vector elements come back without '@type'
            vals.append(v), exps.append(e)
            s = s + q
        return vals, exps, s
    if t in u.by_name and ST.is_bare_name(t):
        c = u.by_name[t]
        v, e, s = gen_con(w, c, path, sh, depth + 1, None)
        e = dict(e)
        e['@type'] = c.name
        return v, e, s
    if t in u.by_cls:
        cands = [c for c in u.by_cls[t] if u.supported_con(c)]
        c = cands[sh.next(len(cands))] if depth < 3 else min(cands, key=lambda c: len(c.fields))
        v, e, s = gen_con(w, c, path, sh, depth + 1, None)
        v, e = dict(v), dict(e)
        v['@type'] = c.name
        e['@type'] = c.name
        return v, e, Seq.from_bytes(c.id.to_bytes(4, 'little')) + s
    raise ValueError(f'unsupported TL type {t}')


def gen_con(w, c, path, sh, depth, flagval):
    """fields of constructor c (no id): (library dict, expected parse dict, Seq)"""
    val, exp, s = {}, {}, Seq()
    flags = {}
    for name, t, cond in c.fields:
        if t == '#' and not any(cd is not None and cd[0] == name for _, _, cd in c.fields):
            # a plain 32-bit natural that guards nothing (count:#, seqno:# ...): symbolic over its whole range (the library reads and
            # writes it as a signed int32, so the canonical value is the signed image)
            v = w.int(f'{path}.{name}', -(1 << 31), (1 << 31) - 1)
            val[name] = exp[name] = v
            s = s + ST.le_int(v, 4)
            continue
        if t == '#':
            used = sorted({cd[1] for _, _, cd in c.fields if cd is not None and cd[0] == name})
            if flagval is not None and depth <= 1:
                fv = flagval
            else:
                fv = sum(1 << b for i, b in enumerate(used) if (sh.rot >> i) & 1 or depth > 2 and False)
            flags[name] = fv
            val[name] = exp[name] = fv
            s = s + ST.le_uint(fv, 4)
            continue
        if cond is not None:
            if not (flags.get(cond[0], 0) >> cond[1]) & 1:
                continue
        v, e, q = gen(w, t, f'{path}.{name}', sh, depth)
        val[name], exp[name] = v, e
        s = s + q
    return val, exp, s


def nbytes(seq):
    L = seq.length()
    if type(L) is int:
        return L // 8
    from vf.sym import mk_int
    return mk_int(L) // 8


def same(w, got, exp, path='v'):
    """conjunction: the parsed value equals the expected one (dicts field-wise; '@type' is the only key the parser may add)"""
    if isinstance(exp, dict):
        if not isinstance(got, dict):
            return False
        if set(got) - set(exp) - {'@type'} or set(exp) - set(got):
            return False
        return w.And(*[same(w, got[k], exp[k], f'{path}.{k}') for k in exp])
    if isinstance(exp, list):
        if not isinstance(got, list) or len(got) != len(exp):
            return False
        return w.And(*[same(w, g, e, f'{path}[{i}]') for i, (g, e) in enumerate(zip(got, exp))])
    if isinstance(exp, bool):
        return got is exp
    if got is None:
        return False
    r = got == exp
    return r


def flag_values(c):
    bits = sorted({cd[1] for _, _, cd in c.fields if cd is not None})
    if not bits:
        return [None]
    if len(bits) <= 3:
        subsets = [s for k in range(len(bits) + 1) for s in itertools.combinations(bits, k)]
    else:
        subsets = [(), tuple(bits)] + [(b,) for b in bits] + [tuple(x for x in bits if x != b) for b in bits[:3]]
    return [sum(1 << b for b in s) for s in subsets]


def con_cases():
    u = U()
    out = []
    for c in u.by_name.values():
        if not u.supported_con(c) or not c.fields and False:
            continue
        nvar = sum(1 for _, t, _ in c.fields if t in ('bytes', 'string') or t.startswith('(vector') or t == 'Bool' or
                   (t in u.by_cls and not ST.is_bare_name(t)))
        import os
        rots = [0, 5] if nvar == 0 else (list(range(13)) if os.environ.get('VERIF_TIER') == 'thorough' else [0, 1, 2, 5, 7, 11])
        for fv in flag_values(c):
            for r in (rots if fv in (None, 0) or nvar else rots[:2]):
                out.append({'name': c.name, 'flags': fv, 'rot': r})
    return out


# constructors with exactly one top-level bytes field and no string / vector / nested bytes: these get the symbolic-length cases
def symlen_cases():
    u = U()
    out = []
    for c in u.by_name.values():
        if not u.supported_con(c):
            continue
        ts = [t for _, t, cond in c.fields]
        if ts.count('bytes') == 1 and all(t in ('bytes', 'int', 'long', 'int256', 'int128', '#', 'Bool') or (t in u.by_name and ST.is_bare_name(t) and
                                          all(ft in ('int', 'long', 'int256', 'int128') for _, ft, _ in u.by_name[t].fields)) for t in ts) \
                and not any(cond for _, _, cond in c.fields):
            for i in range(len(SYM_LENS)):
                out.append({'name': c.name, 'symlen': i})
    return out


_SCASES = None


def scases():
    global _SCASES
    if _SCASES is None:
        _SCASES = symlen_cases()
    return _SCASES


_CASES = None


def cases():
    global _CASES
    if _CASES is None:
        _CASES = con_cases()
    return _CASES


def _label(c):
    return f"{c['name']}|f={c['flags']}|r{c['rot']}"


@obligation('C14.constructor', 'C14', cases=[{'i': i, 'shape': _label(c)} for i, c in enumerate(cases())],
            fuc=[G + 'TlSchemas.serialize', G + 'TlSchemas.serialize_field', G + 'TlSchemas.deserialize', G + 'TlSchemas.get_by_id',
                 G + 'TlSchemas.get_by_name', G + 'TlSchemas.get_by_class_name'],
            descr='per constructor of the three bundled schema files whose field types the library can express, per flag subset and per '
                  'length/alternative rotation (bytes and strings of 0,1,2,3,4,252..257,1000,5000 bytes; vectors of 0..2 elements; Bool; '
                  'boxed alternatives; nested objects): serialize(schema, v) == TL encoding (little-endian id and integers, framed and '
                  'padded strings), deserialize(encoding) returns v and consumes exactly all bytes; integers, hashes and byte contents '
                  'symbolic', budget={'seconds': 15, 'paths': 150})
def constructor(w, i, shape):
    case = cases()[i]
    M, schemas = lib(auto=False)
    c = U().by_name[case['name']]
    sh = Shape(case['rot'])
    val, exp, body = gen_con(w, c, c.name, sh, 1, case['flags'])
    enc = Seq.from_bytes(c.id.to_bytes(4, 'little')) + body
    exp = dict(exp)
    exp['@type'] = c.name
    k, ser = call(schemas.serialize, schemas.get_by_name(c.name), val)
    w.claim(f'serialize does not raise ({type(ser).__name__ + ": " + str(ser)[:60] if k != "ok" else ""})', k == 'ok')
    if k == 'ok':
        w.claim('serialize == TL encoding', w.eq_seq(w.bytes_seq(ser), enc))
    data = SC._as_bytes(w, enc)
    k2, r = call(schemas.deserialize, data)
    w.claim(f'deserialize does not raise ({type(r).__name__ + ": " + str(r)[:60] if k2 != "ok" else ""})', k2 == 'ok')
    if k2 == 'ok':
        got, n = r
        w.claim('consumes exactly all bytes', n == nbytes(enc))
        w.claim('returns the same value', same(w, got, exp))


@obligation('C14.symlen', 'C14', cases=[{'i': i, 'shape': f"{c['name']}|{SYM_LENS[c['symlen']]}"} for i, c in enumerate(scases())],
            fuc=[G + 'TlSchemas.serialize', G + 'TlSchemas.serialize_field', G + 'TlSchemas.deserialize'],
            descr='bytes fields of SYMBOLIC length: for every constructor with one top-level bytes field (and otherwise fixed-width fields) the '
                  'length is n = 4q + r with q symbolic over the whole framing class (short: n <= 253; long: 254 <= n < 2^24) and r = 0..3 '
                  '(the padding residue): serialize == TL framing (1-byte / 0xFE + 3-byte length, zero padding to a multiple of 4) and '
                  'deserialize inverts it, for EVERY length', budget={'seconds': 60, 'paths': 400})
def symlen(w, i, shape):
    case = scases()[i]
    M, schemas = lib(auto=False)
    c = U().by_name[case['name']]
    sh = Shape(0, symlen=case['symlen'])
    val, exp, body = gen_con(w, c, c.name, sh, 1, None)
    enc = Seq.from_bytes(c.id.to_bytes(4, 'little')) + body
    exp = dict(exp)
    exp['@type'] = c.name
    k, ser = call(schemas.serialize, schemas.get_by_name(c.name), val)
    w.claim(f'serialize does not raise ({type(ser).__name__ + ": " + str(ser)[:60] if k != "ok" else ""})', k == 'ok')
    if k == 'ok':
        w.claim('serialize == TL encoding', w.eq_seq(w.bytes_seq(ser), enc))
    data = SC._as_bytes(w, enc)
    k2, r = call(schemas.deserialize, data)
    w.claim(f'deserialize does not raise ({type(r).__name__ + ": " + str(r)[:60] if k2 != "ok" else ""})', k2 == 'ok')
    if k2 == 'ok':
        got, n = r
        w.claim('consumes exactly all bytes', n == nbytes(enc))
        w.claim('returns the same value', same(w, got, exp))


@obligation('C14.registry', 'C14', fuc=[G + 'TlRegistrator.register', G + 'TlRegistrator.get_id', G + 'split', G + 'TlGenerator.from_file',
                                        G + 'TlGenerator.generate', G + 'TlSchemas.generate_map'],
            descr='concrete and exhaustive: for every declaration of the three schema files the library registers the same (id, name, '
                  'class, fields with their types and conditions) as the independent reader; lookups by id (both byte orders), name and '
                  'class return it; the supported / excluded constructor sets are reported')
def registry(w):
    M, schemas = lib()
    u = U()
    bad = []
    for c in u.by_name.values():
        if any(n is None for n, _, _ in c.fields) or '{' in c.text or '?' in c.text.split('=')[0].replace('.', ' ').split(' ')[1:2]:
            continue            # built-in / generic declarations (int ? = Int; vector {t:Type} # [ t ] = Vector t; ...)
        s = schemas.get_by_name(c.name)
        if s is None:
            bad.append((c.name, 'not registered'))
            continue
        if int.from_bytes(s.id, 'big') != c.id:
            bad.append((c.name, f'id {s.id.hex()} != {c.id:08x}'))
        if s.class_name != c.cls:
            bad.append((c.name, f'class {s.class_name} != {c.cls}'))
        want = {n: (t if cond is None else f'{cond[0]}.{cond[1]}?{t}') for n, t, cond in c.fields if n is not None}
        if dict(s.args) != want or list(s.args) != list(want):
            bad.append((c.name, f'args {dict(s.args)} != {want}'))
        if schemas.get_by_id(c.id.to_bytes(4, 'big')) is not s or schemas.get_by_id(c.id.to_bytes(4, 'little'), 'little') is not s:
            if u.by_name[c.name] is c and sum(1 for x in u.by_name.values() if x.id == c.id) == 1:
                bad.append((c.name, 'lookup by id'))
    w.claim(f'all {len(u.by_name)} constructors registered identically ({bad[:3]})', not bad)
    sup = [c.name for c in u.by_name.values() if u.supported_con(c)]
    w.claim(f'supported constructors: {len(sup)} of {len(u.by_name)}', len(sup) > 300)


B = 'pytoniq_core.tl.block.'


@obligation('C14.blockid', 'C14', fuc=[B + 'BlockIdExt.to_bytes', B + 'BlockIdExt.from_bytes', B + 'BlockIdExt.to_dict', B + 'BlockIdExt.from_dict',
                                       B + 'BlockIdExt.__eq__', B + 'BlockIdExt.__hash__', B + 'BlockId.to_dict', B + 'BlockId.from_dict'],
            descr='BlockIdExt / BlockId with symbolic workchain (int32), shard (int64), seqno (int32) and hashes: from_bytes(to_bytes(x)) == x, '
                  'to_bytes is 80 bytes (big-endian fields ++ hashes), from_dict(to_dict(x)) == x, hash(x) is an int and equal ids have '
                  'equal hashes (usable as dictionary keys)')
def blockid(w):
    T = importlib.import_module('pytoniq_core.tl.block')
    wc = w.int('wc', -(1 << 31), (1 << 31) - 1)
    shard = w.int('shard', -(1 << 63), (1 << 63) - 1)
    seqno = w.int('seqno', -(1 << 31), (1 << 31) - 1)
    rh, fh = w.bytes('rh', 32), w.bytes('fh', 32)
    x = T.BlockIdExt(wc, shard, seqno, rh, fh)
    k, b = call(x.to_bytes)
    w.claim('to_bytes does not raise', k == 'ok')
    if k == 'ok':
        w.claim('80 bytes', len(b) == 80)
        k2, y = call(T.BlockIdExt.from_bytes, b)
        w.claim('from_bytes(to_bytes(x)) == x', k2 == 'ok' and w.And(y.workchain == wc, y.shard == shard, y.seqno == seqno,
                                                                      y.root_hash == rh, y.file_hash == fh))
        if k2 == 'ok':
            w.claim('== agrees', y == x)
    # == holds IFF all five fields agree: a second id with independent symbolic fields (the solver may make any subset equal)
    wc2 = w.int('wc2', -(1 << 31), (1 << 31) - 1)
    shard2 = w.int('shard2', -(1 << 63), (1 << 63) - 1)
    seqno2 = w.int('seqno2', -(1 << 31), (1 << 31) - 1)
    rh2, fh2 = w.bytes('rh2', 32), w.bytes('fh2', 32)
    x2 = T.BlockIdExt(wc2, shard2, seqno2, rh2, fh2)
    ke, eq = call(lambda: bool(x == x2))
    same = w.And(wc == wc2, shard == shard2, seqno == seqno2, rh == rh2, fh == fh2)
    w.claim('== does not raise', ke == 'ok')
    if ke == 'ok':
        w.claim('x == y iff workchain, shard, seqno, root_hash and file_hash all agree', same if eq else w.Not(same))
    d = x.to_dict()
    k3, z = call(T.BlockIdExt.from_dict, d)
    w.claim('from_dict(to_dict(x)) == x', k3 == 'ok' and w.And(z.workchain == wc, z.shard == shard, z.seqno == seqno,
                                                                z.root_hash == rh, z.file_hash == fh))
    bi = T.BlockId(wc, shard, seqno)
    k4, bj = call(T.BlockId.from_dict, bi.to_dict())
    w.claim('BlockId dict round trip', k4 == 'ok' and w.And(bj.workchain == wc, bj.shard == shard, bj.seqno == seqno))
    # usable as a dictionary key: __hash__ returns an int, equal values hash equally
    k5, hv = call(x.__hash__)
    w.claim(f'__hash__ returns an int ({type(hv).__name__})', k5 == 'ok' and (type(hv) is int or type(hv).__name__ == 'SymInt'))
    if k3 == 'ok' and k5 == 'ok':
        k6, hz = call(z.__hash__)
        w.claim('equal ids have equal hashes', k6 == 'ok' and hz == hv)


@obligation('C14.keys', 'C14', kind='bounded', samples=40, fuc=[B + 'BlockIdExt.__hash__', B + 'BlockIdExt.__eq__'],
            descr='bounded, native: BlockIdExt objects are usable as dict keys and set members (hash() accepted by CPython, lookups by an '
                  'equal but distinct object succeed)')
def keys(w):
    T = importlib.import_module('pytoniq_core.tl.block')
    rng = w.rng
    mk = lambda: (rng.choice([-1, 0]), rng.choice([-(1 << 63), 1 << 62]), rng.randrange(1 << 31), bytes(rng.getrandbits(8) for _ in range(32)),
                  bytes(rng.getrandbits(8) for _ in range(32)))
    a = mk()
    x, y = T.BlockIdExt(*a), T.BlockIdExt(*a)
    k, d = call(lambda: {x: 1})
    w.claim(f'usable as a dictionary key ({d if k != "ok" else ""})', k == 'ok')
    if k == 'ok':
        w.claim('lookup by an equal object', d.get(y) == 1 and y in {x})


@obligation('C14.native', 'C14', kind='bounded', samples=400, fuc=[G + 'TlSchemas.serialize', G + 'TlSchemas.deserialize'],
            descr='bounded, native: random supported constructors with random values (string/bytes lengths 0..4, 250..260, 65530..65545, '
                  'vectors up to 50 elements, nested boxed objects inside bytes fields in auto-deserialise mode): serialize == independent '
                  'TL encoding, deserialize inverts it and consumes all bytes')
def native(w):
    rng = w.rng
    M, schemas = lib(auto=False)
    cs = cases()
    case = cs[rng.randrange(len(cs))]
    c = U().by_name[case['name']]
    sh = Shape(rng.randrange(0, 97))
    val, exp, body = gen_con(w, c, c.name, sh, 1, case['flags'])
    enc = Seq.from_bytes(c.id.to_bytes(4, 'little')) + body
    exp = dict(exp)
    exp['@type'] = c.name
    data = SC._as_bytes(w, enc)
    k, ser = call(schemas.serialize, schemas.get_by_name(c.name), val)
    w.claim(f'{c.name}: serialize == TL encoding', k == 'ok' and ser == data)
    k2, r = call(schemas.deserialize, data)
    w.claim(f'{c.name}: deserialize inverts', k2 == 'ok' and r[1] == len(data) and same(w, r[0], exp))


AUTO = [(o, f, i) for o, f in (('adnl.message.query', 'query'), ('adnl.message.answer', 'answer'), ('liteServer.query', 'data'),
                               ('tonNode.query', None)) for i in ('liteServer.getTime', 'liteServer.getBlockHeader', 'liteServer.currentTime',
                                                                  'liteServer.getAllShardsInfo', 'dht.ping') if f is not None]


@obligation('C14.auto', 'C14', cases=[{'outer': o, 'field': f, 'inner': i} for o, f, i in AUTO],
            fuc=[G + 'TlSchemas.serialize', G + 'TlSchemas.serialize_field', G + 'TlSchemas.deserialize'],
            descr='auto-deserialise mode (the default): a TL object nested in a bytes field (given as a dict with @type) is serialised boxed '
                  'inside the framed bytes, and parsing returns the nested object again (symbolic integers and hashes), consuming all bytes')
def auto(w, outer, field, inner):
    M, schemas = lib(auto=True)
    u = U()
    ci, co = u.by_name[inner], u.by_name[outer]
    sh = Shape(1)
    ival, iexp, ibody = gen_con(w, ci, inner, sh, 2, None)
    ival, iexp = dict(ival), dict(iexp)
    ival['@type'] = iexp['@type'] = inner
    ienc = Seq.from_bytes(ci.id.to_bytes(4, 'little')) + ibody
    val, exp, s = {}, {'@type': outer}, Seq.from_bytes(co.id.to_bytes(4, 'little'))
    for name, t, cond in co.fields:
        if name == field:
            val[name], exp[name] = ival, iexp
            s = s + ST.frame(w, ienc, ienc.length() // 8)
        else:
            v, e, q = gen(w, t, f'{outer}.{name}', sh, 1)
            val[name], exp[name] = v, e
            s = s + q
    k, ser = call(schemas.serialize, schemas.get_by_name(outer), val)
    w.claim(f'serialize does not raise ({ser if k != "ok" else ""})', k == 'ok')
    if k == 'ok':
        w.claim('nested object is serialised boxed inside the framed bytes', w.eq_seq(w.bytes_seq(ser), s))
    k2, r = call(schemas.deserialize, SC._as_bytes(w, s))
    w.claim(f'deserialize does not raise ({r if k2 != "ok" else ""})', k2 == 'ok')
    if k2 == 'ok':
        w.claim('consumes all bytes', r[1] == s.length() // 8)
        w.claim('returns the nested object', same(w, r[0], exp))
