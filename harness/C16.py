"""C16 — transaction, account and block parsers read exactly what block.tlb specifies.

For every covered TL-B type the encoder GENERATED FROM THE SCHEMA TEXT (vf/spec/tlb.py reads /repo's block.tlb on every run)
produces the encoding of a value whose fields are all symbolic over their full range; the finite shape choices (constructor
alternative, Maybe / Either / conditional fields and their guard values, nested alternatives of direct fields, dictionary
shapes, address kinds, var-integer byte lengths) are an exhaustive case split (one unit each; thinned only where stated).
The REAL parser runs on `encoding ++ rest` and every returned field must equal the encoded value (unsigned stays unsigned),
with exactly the encoded bits and references consumed.
"""
import importlib
from vf.engine import obligation
from vf.spec import tlb as T
from harness import tlbcheck as TC
from harness.common import call

TR, AC, BL, CF, UT = ('pytoniq_core.tlb.transaction', 'pytoniq_core.tlb.account', 'pytoniq_core.tlb.block',
                      'pytoniq_core.tlb.config', 'pytoniq_core.tlb.utils')

# (schema type, type args, module, class, extra call args builder(own) or None)
TYPES = [
    # transactions and phases
    ('Transaction', (), TR, 'Transaction', None),
    ('TransactionDescr', (), TR, 'TransactionDescr', None),
    ('TrStoragePhase', (), TR, 'TrStoragePhase', None),
    ('TrCreditPhase', (), TR, 'TrCreditPhase', None),
    ('TrComputePhase', (), TR, 'TrComputePhase', None),
    ('TrActionPhase', (), TR, 'TrActionPhase', None),
    ('TrBouncePhase', (), TR, 'TrBouncePhase', None),
    ('AccStatusChange', (), TR, 'AccStatusChange', None),
    ('ComputeSkipReason', (), TR, 'ComputeSkipReason', None),
    ('SplitMergeInfo', (), TR, 'SplitMergeInfo', None),
    # message descriptors
    ('IntermediateAddress', (), TR, 'IntermediateAddress', None),
    ('MsgMetadata', (), TR, 'MsgMetadata', None),
    ('MsgEnvelope', (), TR, 'MsgEnvelope', None),
    ('InMsg', (), TR, 'InMsg', None),
    ('OutMsg', (), TR, 'OutMsg', None),
    ('ImportFees', (), TR, 'ImportFees', None),
    ('CommonMsgInfo', (), TR, 'CommonMsgInfo', None),
    # accounts
    ('Account', (), AC, 'Account', None),
    ('StorageInfo', (), AC, 'StorageInfo', None),
    ('StorageUsed', (), AC, 'StorageUsed', None),
    ('StorageUsedShort', (), AC, 'StorageUsedShort', None),
    ('AccountStorage', (), AC, 'AccountStorage', None),
    ('AccountState', (), AC, 'AccountState', None),
    ('StateInit', (), AC, 'StateInit', None),
    ('TickTock', (), AC, 'TickTock', None),
    ('ShardAccount', (), AC, 'ShardAccount', None),
    ('AccountStatus', (), AC, 'AccountStatus', None),
    ('AccountBlock', (), AC, 'AccountBlock', None),
    # block header & co
    ('BlockInfo', (), BL, 'BlockInfo', None),
    ('ShardIdent', (), BL, 'ShardIdent', None),
    ('GlobalVersion', (), BL, 'GlobalVersion', None),
    ('BlkMasterInfo', (), BL, 'BlkMasterInfo', None),
    ('BlkPrevInfo', (0,), BL, 'BlkPrevInfo', lambda own: (0,)),
    ('BlkPrevInfo', (1,), BL, 'BlkPrevInfo', lambda own: (1,)),
    ('ExtBlkRef', (), BL, 'ExtBlkRef', None),
    ('ValueFlow', (), BL, 'ValueFlow', None),
    ('CurrencyCollection', (), BL, 'CurrencyCollection', None),
    ('ExtraCurrencyCollection', (), BL, 'ExtraCurrencyCollection', None),
    ('ShardDescr', (), BL, 'ShardDescr', None),
    ('FutureSplitMerge', (), BL, 'FutureSplitMerge', None),
    ('DepthBalanceInfo', (), BL, 'DepthBalanceInfo', None),
    ('ValidatorInfo', (), BL, 'ValidatorInfo', None),
    ('KeyExtBlkRef', (), BL, 'KeyExtBlkRef', None),
    ('KeyMaxLt', (), BL, 'KeyMaxLt', None),
    ('Counters', (), BL, 'Counters', None),
    ('CreatorStats', (), BL, 'CreatorStats', None),
    ('BlockCreateStats', (), BL, 'BlockCreateStats', None),
    ('ConfigParams', (), BL, 'ConfigParams', None),
    ('McStateExtra', (), BL, 'McStateExtra', None),
    ('McBlockExtra', (), BL, 'McBlockExtra', None),
    ('BlockExtra', (), BL, 'BlockExtra', None),
    ('ShardStateUnsplit', (), BL, 'ShardStateUnsplit', None),
    ('ShardState', (), BL, 'ShardState', None),
    ('Block', (), BL, 'Block', None),
    ('HASH_UPDATE', (('id', 'Account'),), UT, 'HashUpdate', None),
    # validator sets and catchain config
    ('SigPubKey', (), CF, 'SigPubKey', None),
    ('ValidatorDescr', (), CF, 'ValidatorDescr', None),
    ('ValidatorSet', (), CF, 'ValidatorSet', None),
    ('CatchainConfig', (), CF, 'CatchainConfig', None),
]

# configuration parameters (beyond the property's list: validator sets and catchain config are ConfigParam 28 / 32..37); every
# ConfigParam N the library has a class for
CFG = [0, 1, 2, 3, 4, 5, 6, 7, 8, 9, 10, 11, 12, 13, 14, 15, 16, 17, 18, 20, 21, 22, 23, 24, 25, 28, 29, 31, 32, 33, 34, 35, 36, 37, 44, 71, 72,
       73, 79, 81, 82]
for _n in CFG:
    TYPES.append(('ConfigParam', (_n,), CF, f'ConfigParam{_n}', None))

_CASES = {}


def cases_of(tname, targs):
    key = (tname, targs)
    if key in _CASES:
        return _CASES[key]
    import os
    own = T.own_cases(tname, targs, cap=400 if os.environ.get('VERIF_TIER') == 'thorough' else 96)
    nvar = T.max_var_n(tname, targs)
    out = []
    seen_cons = set()
    for i, o in enumerate(own):
        out.append({'own': o, 'prof': i % 2, 'rot': i % nvar})
        top = tuple(sorted((k, v) for k, v in o.items() if '!' in k and k.count('.') == 0))
        if top not in seen_cons:
            seen_cons.add(top)
            for r in range(nvar):          # complete the rotation once per top-level constructor: every var-int length
                out.append({'own': o, 'prof': 1, 'rot': r})
            out.append({'own': o, 'prof': 0, 'rot': 0})
    # dedupe; drop shapes whose value does not fit a cell (they have no encoding)
    uniq, res = set(), []
    for c in out:
        k = (tuple(sorted(c['own'].items())), c['prof'], c['rot'])
        if k not in uniq and T.fits(tname, targs, c['own'], c['prof'], c['rot']):
            uniq.add(k)
            res.append(c)
    _CASES[key] = res
    return res


def _label(tname, targs, case):
    own = ','.join(f'{k.split(".", 1)[-1] if "." in k else k}:{v}' for k, v in case['own'].items())
    a = ''.join(f' {x}' for x in targs if type(x) is int)
    return f'{tname}{a}|{own}|p{case["prof"]}r{case["rot"]}'


def _mk(tname, targs, mod, cls, extra):
    cases = cases_of(tname, targs)
    cs = [{'i': i, 'shape': _label(tname, targs, c)} for i, c in enumerate(cases)]
    suffix = ''.join(str(x) for x in targs if type(x) is int)
    how = 'all combinations of its own choice points (exhaustive)' if T.EXHAUSTIVE.get((tname, tuple(targs))) else \
        'a covering sample of the combinations of its own choice points (every alternative of every choice point at least twice)'

    @obligation(f'C16.{tname}{suffix}', 'C16', cases=cs, fuc=[f'{mod}.{cls}.deserialize'],
                descr=f'{cls}.deserialize on the schema encoding of {tname} {suffix} in {len(cs)} shapes = {how} x nested profile x '
                      f'var-integer length rotation (fields symbolic over their full range; every third shape after an earlier parse of an '
                      f'independent value of the same shape - history independence): every field returned with the encoded '
                      f'value, exactly the encoded bits and references consumed',
                budget={'seconds': 25, 'paths': 400})
    def ob(w, i, shape, _t=tname, _a=targs, _m=mod, _c=cls, _x=extra):
        case = cases_of(_t, _a)[i]
        M = importlib.import_module(_m)
        fn = getattr(M, _c).deserialize
        if i % 3 == 0:         # every third shape: an earlier parse of an independent value of the same shape comes first
            TC.decoy_parse(w, fn, _t, _a, case['own'], case['prof'], case['rot'], extra_args=_x(case['own']) if _x else ())
        cur, v = TC.encode(w, _t, _a, case['own'], case['prof'], case['rot'])
        TC.parse_and_compare(w, fn, cur, v, extra_args=_x(case['own']) if _x else ())
    return ob


for _t in TYPES:
    _mk(*_t)


# ---- addr_var$11: variable-length internal addresses --------------------------------------------------------------------
_AV = [('Account', {'Account!Account': 1, 'Account.addr@': 2}), ('MsgMetadata', {'MsgMetadata.initiator_addr@': 2}),
       ('CommonMsgInfo', {'CommonMsgInfo!CommonMsgInfo': 0, 'CommonMsgInfo.src@': 2, 'CommonMsgInfo.dest@': 0}),
       ('CommonMsgInfo', {'CommonMsgInfo!CommonMsgInfo': 1, 'CommonMsgInfo.dest@': 2})]


@obligation('C16.addr_var', 'C16', cases=[{'i': i, 'where': f'{t}:{sorted(o)[-1]}'} for i, (t, o) in enumerate(_AV)],
            fuc=['pytoniq_core.boc.slice.Slice.load_address', AC + '.Account.deserialize', TR + '.MsgMetadata.deserialize',
                 TR + '.CommonMsgInfo.deserialize'],
            descr='MsgAddressInt has two constructors; addr_var$11 anycast:(Maybe Anycast) addr_len:(## 9) workchain_id:int32 '
                  'address:(bits addr_len) in an account / message header / metadata is parsed with its workchain and leaves exactly '
                  'the rest.  RECORDED KNOWN FINDING on the unchanged tree: Slice.load_address raises "Unknown address type" '
                  '(the library has no representation for variable-length addresses)')
def addr_var(w, i, where):
    t, own = _AV[i]
    M = importlib.import_module({'Account': AC}.get(t, TR))
    pol = T.Policy(own=dict(own), prof=0, rot=0)
    pol.addr_var = True
    cur, v, g = T.generate(w, t, (), pol, cell_factory=lambda p: TC.leaf_cell(w, 'c:' + p))
    TC.parse_and_compare(w, getattr(M, t).deserialize, cur, v)


# ---- the bundled real main-net block ---------------------------------------------------------------------------------------

def _bundled_block_boc():
    """the base64 BoC of the main-net block in /repo/tests/test_cell.py (read from the source, not imported)"""
    import ast
    import os
    from vf import loader
    src = open(os.path.join(loader.REPO if os.path.isdir(os.path.join(loader.REPO, 'tests')) else '/repo', 'tests', 'test_cell.py')).read()
    best = ''
    for node in ast.walk(ast.parse(src)):
        if isinstance(node, ast.Constant) and isinstance(node.value, str) and len(node.value) > len(best):
            best = node.value
    return best


@obligation('C16.realblock', 'C16', kind='bounded', samples=1,
            fuc=[BL + '.Block.deserialize', BL + '.BlockInfo.deserialize', BL + '.ValueFlow.deserialize', BL + '.BlockExtra.deserialize',
                 BL + '.McBlockExtra.deserialize', BL + '.ShardDescr.deserialize', TR + '.Transaction.deserialize', TR + '.InMsg.deserialize',
                 TR + '.OutMsg.deserialize', AC + '.AccountBlock.deserialize'],
            descr='ONE concrete input (regression, not quantified): the bundled real main-net block (tests/test_cell.py) is decoded by the '
                  'independent schema decoder (vf/spec/tlbdec.py, block.tlb + supplement) and by Block.deserialize; every field the library '
                  'returns equals the decoded value (dictionaries entry by entry, all transactions, messages, shard descriptors); pruned '
                  'parts of the state update are skipped by both')
def realblock(w):
    import sys
    sys.setrecursionlimit(10000)
    from vf.spec import tlbdec as D
    from pytoniq_core.boc.cell import Cell
    M = importlib.import_module(BL)
    boc = _bundled_block_boc()
    w.claim('bundled block found in tests/test_cell.py', len(boc) > 1000)
    root = Cell.one_from_boc(boc)
    v, r, d = D.decode(root, 'Block')
    w.claim('the independent decoder consumes the whole root cell', r.done())
    k, got = call(M.Block.deserialize, root.begin_parse())
    w.claim(f'Block.deserialize accepts the block ({got if k != "ok" else ""})', k == 'ok')
    if k != 'ok':
        return
    cx = TC.Ctx(w)
    TC.agree(cx, got, v, 'block')
    n = len(cx.claims)
    bad = [name for name, c in cx.claims if not c]
    w.claim(f'all {n} compared fields agree with the independent decoding (first differences: {bad[:4]})', not bad)
    w.claim('a non-trivial number of fields was compared', n > 300)
    w.cover(f'fields compared: {n}; pruned/raw parts skipped: {len(cx.skipped)}')


# ---- BinTree: leaves at different depths --------------------------------------------------------------------------------------

_BT = {'leaf': 'A', 'balanced': ('A', 'B'), 'left_deep': (('A', 'B'), 'C'), 'right_deep': ('A', ('B', 'C')),
       'zigzag': (('A', ('B', 'C')), 'D'), 'both': (('A', 'B'), ('C', 'D'))}


@obligation('C16.bintree', 'C16', cases=[{'shape': s} for s in _BT], fuc=[BL + '.BinTree.deserialize', 'pytoniq_core.tlb.utils.deserialize_shard_hashes'],
            descr='BinTree X (bt_leaf$0 leaf:X / bt_fork$1 left:^(BinTree X) right:^(BinTree X)), the container of ShardHashes, in six tree '
                  'shapes, among them trees whose leaves sit at DIFFERENT depths (fork(fork(A,B),C), fork(A,fork(B,C)), '
                  'fork(fork(A,fork(B,C)),D)): BinTree.deserialize returns the leaves in left-to-right order (ascending shard prefix), '
                  'each positioned after its tag bit with its payload unread; leaf payloads symbolic')
def bintree(w, shape):
    from pytoniq_core.boc.builder import Builder
    M = importlib.import_module(BL)
    order, vals = [], {}

    def build(t):
        if isinstance(t, str):
            vals[t] = w.int('leaf' + t, 0, (1 << 32) - 1)
            order.append(t)
            return Builder().store_bit(0).store_uint(vals[t], 32).end_cell()
        l, r = build(t[0]), build(t[1])
        return Builder().store_bit(1).store_ref(l).store_ref(r).end_cell()
    root = build(_BT[shape])
    k, got = call(M.BinTree.deserialize, root.begin_parse())
    w.claim(f'does not raise ({got if k != "ok" else ""})', k == 'ok')
    if k != 'ok':
        return
    lst = got.list
    w.claim(f'{len(order)} leaves', isinstance(lst, list) and len(lst) == len(order))
    if isinstance(lst, list) and len(lst) == len(order):
        for i, name in enumerate(order):
            kk, v = call(lst[i].load_uint, 32)
            w.claim(f'leaf {i} is {name} (left to right), positioned after its tag bit', kk == 'ok' and v == vals[name])
            w.claim(f'leaf {i}: nothing else in it', lst[i].remaining_bits == 0 and lst[i].remaining_refs == 0)
