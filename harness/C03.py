"""C03 — bag-of-cells serialisation round-trips for every DAG and option set.

The whole pipeline (Cell.to_boc -> Boc -> deserialize_boc_header -> deserialize_cell -> rebuild) runs symbolically on
every DAG shape with up to 3 cells (+ two 4-cell sharing shapes, + exotic cells), contents and data lengths symbolic, all 6
option sets: the parsed root has the same hash and, recursively, the same bits, types and references.  Input forms
(bytes / hex / base64) and entry points (Cell / Slice / Builder) agree.  For larger DAGs the round trip is the
composition of C04 (to_boc emits the specification encoding of the DAG) and C05 (the parser decodes every specification
encoding); that composition and Cell.order on unbounded DAGs are exercised by a bounded native stand-in.
"""
import base64
import importlib
import os
from vf.engine import obligation
from vf.spec import boc as SB, cell as SC, enc as E
from vf.bits import Seq
from harness.common import call, is_error, same_objects, bits_of
import harness.C04 as C04

C = 'pytoniq_core.boc.cell.Cell.'
D = 'pytoniq_core.boc.deserialize.Boc.'
CRCASSUME = C04.CRCASSUME
FUC = [C + 'to_boc', C + 'order', C + 'serialize', C + 'from_boc', C + 'one_from_boc', D + '__init__', D + 'deserialize',
       D + 'deserialize_boc_header', D + 'deserialize_cell', C + '__init__']


def _same(w, a, b, depth=0):
    """structural equality of a parsed cell `a` with the original `b` (recursively): conjunction"""
    conj = [w.eq_seq(bits_of(w, a), b._vf['bits']), a.type_ == b.type_, len(a.refs) == len(b.refs)]
    if len(a.refs) == len(b.refs):
        for x, y in zip(a.refs, b.refs):
            conj.append(_same(w, x, y, depth + 1))
    return w.And(*conj)


def _exotic_dag(w):
    """Merkle proof over an ordinary cell that holds a pruned branch and a library cell"""
    pruned = C04.mk_cell(w, 'pr', [], 3, m8=0, type_=None) if False else None
    from pytoniq_core.boc.cell import Cell
    from pytoniq_core.boc.tvm_bitarray import TvmBitarray

    def ex(name, seq, kids, ident, type_):
        c = Cell(w.mk_bitarray(TvmBitarray, seq, 1023), list(kids), type_)
        if w.symbolic:
            c._hash = bytes([ident]) * 32
        c._vf = dict(bits=seq, b=seq.length(), m8=0, kids=list(kids))
        return c
    pr = ex('pr', E.lit('00000001') + E.uint(1, 8) + w.bits('pr.hash', 256) + E.uint(w.int('pr.depth', 0, 1000), 16), [], 4, 1)
    lib = ex('lib', E.lit('00000010') + w.bits('lib.hash', 256), [], 3, 2)
    mid = C04.mk_cell(w, 'mid', [pr, lib], 2)
    root = ex('root', E.lit('00000011') + w.bits('vhash', 256) + w.bits('vdepth', 16), [mid], 1, 3)
    return {0: root, 1: mid, 2: pr, 3: lib}, {0: [1], 1: [2, 3], 2: [], 3: []}


SHAPES = {k: (lambda w, g=g: C04._dag(w, g, lambda i: (0, 5)[i % 2])) for k, g in C04.GRAPHS.items()}    # data length 8q / 8q+5 alternating
SHAPES['exotic'] = _exotic_dag
QUICK = [(s_, i) for s_ in SHAPES for i in range(len(C04.OPTS)) if s_ in ('single', 'chain2', 'twice', 'fan2', 'diamond', 'exotic') or i in (0, 5)]


@obligation('C03.roundtrip.small', 'C03', cases=[{'shape': s, 'opt': i} for s, i in QUICK],
            fuc=FUC, assumes=[CRCASSUME, 'T3 SHA-256 uninterpreted'],
            descr='BOUNDED in the number of cells (all DAG shapes with <= 3 cells, two 4-cell sharing shapes, a Merkle-proof / pruned '
                  'branch / library DAG), contents and data lengths symbolic, all 6 option sets: one_from_boc(to_boc(root)) has the '
                  'same hash and recursively the same bits, cell types and references')
def roundtrip_small(w, shape, opt):
    MC = importlib.import_module('pytoniq_core.boc.cell')
    MD = importlib.import_module('pytoniq_core.boc.deserialize')
    from pytoniq_core.boc.cell import Cell
    cells, g = SHAPES[shape](w)
    root = cells[0]
    true_hash = root._hashes[-1]

    def crc(data, *a):
        return w.uf('crc32c', w.bytes_seq(data))
    with w.stub(MC, 'crc32c', crc), w.stub(MD, 'crc32c', crc):
        data = root.to_boc(**C04.OPTS[opt])
        k, back = call(Cell.one_from_boc, data)
    w.claim(f'parses ({back if k != "ok" else ""})', k == 'ok')
    if k != 'ok':
        return
    w.claim('same structure: bits, types, references (recursively)', _same(w, back, root))
    w.claim('same hash', back.hash == true_hash)
    w.claim('no more cells rebuilt than the DAG has (sharing is kept)', len({id(x) for x in _walk(back)}) <= len(g))


@obligation('C03.roundtrip.small.rest', 'C03', tier='thorough', fuc=FUC, assumes=[CRCASSUME],
            cases=[{'shape': s, 'opt': i} for s in SHAPES for i in range(len(C04.OPTS)) if (s, i) not in QUICK],
            budget={'seconds': 1800}, descr='thorough tier: the remaining (shape, option set) pairs of C03.roundtrip.small')
def roundtrip_small_rest(w, shape, opt):
    roundtrip_small(w, shape, opt)


@obligation('C03.shared_object', 'C03', cases=[{'opt': i} for i in (0, 3, 5)], fuc=FUC, assumes=[CRCASSUME, 'T3 SHA-256 uninterpreted'],
            descr='history independence of to_boc: ONE cell object (with a child) is serialised inside two different bags, where it and its '
                  'child get different cell numbers, and then on its own: every bag round-trips (a per-cell cache of serialised bytes '
                  'would carry the reference indexes of the first bag into the second); contents symbolic')
def shared_object(w, opt):
    MC = importlib.import_module('pytoniq_core.boc.cell')
    MD = importlib.import_module('pytoniq_core.boc.deserialize')
    from pytoniq_core.boc.cell import Cell
    from pytoniq_core.boc.tvm_bitarray import TvmBitarray
    ids = iter(range(1, 20))

    def mk(name, n, refs):
        # concrete data lengths (the lengths are C03.roundtrip.small's subject), symbolic contents, concrete identity hash
        bits = w.bits(name, n)
        c = Cell(w.mk_bitarray(TvmBitarray, bits, 1023), list(refs))
        if w.symbolic:
            c._hash = bytes([next(ids)]) * 32
        c._vf = dict(bits=bits, b=n, m8=n % 8, kids=list(refs))
        return c
    payload = mk('payload', 13, [])
    mid = mk('mid', 8, [payload])
    x, y = mk('x', 5, []), mk('y', 16, [])
    bag1 = mk('root1', 3, [x, y, mid])          # mid late: numbers 3 / 4
    bag2 = mk('root2', 7, [mid, x])             # mid early: numbers 1 / 2

    def crc(data, *a):
        return w.uf('crc32c', w.bytes_seq(data))
    with w.stub(MC, 'crc32c', crc), w.stub(MD, 'crc32c', crc):
        for nm, root in (('first bag', bag1), ('second bag', bag2), ('the shared cell alone', mid), ('first bag again', bag1)):
            data = root.to_boc(**C04.OPTS[opt])
            k, back = call(Cell.one_from_boc, data)
            w.claim(f'{nm}: parses ({back if k != "ok" else ""})', k == 'ok')
            if k == 'ok':
                w.claim(f'{nm}: same structure and hash', w.And(_same(w, back, root), back.hash == root._hashes[-1]))


@obligation('C03.maxcell', 'C03', cases=[{'n': n, 'opt': i} for n in (1015, 1016, 1017, 1023) for i in (0, 5)], fuc=FUC,
            assumes=[CRCASSUME, 'T3 SHA-256 uninterpreted'],
            descr='cells at the upper end of the data capacity (1015, 1016, 1017, 1023 bits: 127 / 128 data bytes with and without a '
                  'completion tag) with a child and a sibling: one_from_boc(to_boc(root)) has the same structure and hash; '
                  'contents symbolic')
def maxcell(w, n, opt):
    MC = importlib.import_module('pytoniq_core.boc.cell')
    MD = importlib.import_module('pytoniq_core.boc.deserialize')
    from pytoniq_core.boc.cell import Cell
    leaf = C04.concrete_len_cell(w, 'leaf', 9, [], 1)
    big = C04.concrete_len_cell(w, 'big', n, [leaf], 2)
    root = C04.concrete_len_cell(w, 'root', 3, [big, leaf], 3)

    def crc(data, *a):
        return w.uf('crc32c', w.bytes_seq(data))
    with w.stub(MC, 'crc32c', crc), w.stub(MD, 'crc32c', crc):
        data = root.to_boc(**C04.OPTS[opt])
        k, back = call(Cell.one_from_boc, data)
    w.claim(f'parses ({back if k != "ok" else ""})', k == 'ok')
    if k == 'ok':
        w.claim('same structure and hash', w.And(_same(w, back, root), back.hash == root._hashes[-1]))


def _walk(c, out=None):
    out = [] if out is None else out
    out.append(c)
    for r in c.refs:
        _walk(r, out)
    return out


@obligation('C03.inputs', 'C03', fuc=[D + '__init__'],
            assumes=['T2 bytes.hex/fromhex inverse pair', 'T4 base64 inverse pair; a base64 text is not at the same time valid hex '
                     '(a BoC\'s base64 starts with "te6cc": not hex)'],
            descr='Boc(data) for the raw bytes, the hex text and the base64 text of the same (symbolic, any length) byte string '
                  'holds the same data')
def inputs(w):
    MD = importlib.import_module('pytoniq_core.boc.deserialize')
    n = w.int('n', 0, 4000)
    raw = w.bytes('data', n)
    if w.symbolic:
        from vf.shims import SymB64
        forms = {'bytes': raw, 'hex': raw.hex() if hasattr(raw, 'hex') else raw, 'base64': SymB64(raw, False, False) if type(raw) is not bytes else base64.b64encode(raw).decode()}
    else:
        raw = b'\xb5\xee\x9c\x72' + b'\xfb\xff\xbf' + raw        # the standard alphabet's '+' and '/' occur in the base64 text
        forms = {'bytes': raw, 'hex': raw.hex(), 'HEX': raw.hex().upper(), 'base64': base64.b64encode(raw).decode()}
    for nm, f in forms.items():
        k, b = call(MD.Boc, f)
        w.claim(f'{nm}: accepted', k == 'ok')
        if k == 'ok':
            w.claim(f'{nm}: same data', b.data == raw)
    # the explicit constructors for the two text forms
    for nm, ctor, key in (('Boc.from_hex', MD.Boc.from_hex, 'hex'), ('Boc.from_base64', MD.Boc.from_base64, 'base64')):
        k, b = call(ctor, forms[key])
        w.claim(f'{nm}: accepted', k == 'ok')
        if k == 'ok':
            w.claim(f'{nm}: same data', b.data == raw)


@obligation('C03.entry_points', 'C03', cases=[{'opt': i} for i in (0, 3)],
            fuc=[C + 'from_boc', C + 'one_from_boc', 'pytoniq_core.boc.slice.Slice.one_from_boc', 'pytoniq_core.boc.builder.Builder.one_from_boc',
                 'pytoniq_core.boc.builder.Builder.from_boc'], assumes=[CRCASSUME],
            descr='the cell, slice and builder entry points return the same root value for the same bag (2-cell DAG, symbolic contents)')
def entry_points(w, opt):
    MC = importlib.import_module('pytoniq_core.boc.cell')
    MD = importlib.import_module('pytoniq_core.boc.deserialize')
    from pytoniq_core.boc.cell import Cell
    from pytoniq_core.boc.slice import Slice
    from pytoniq_core.boc.builder import Builder
    cells, g = C04.SHAPES['chain2'](w)
    root = cells[0]

    def crc(data, *a):
        return w.uf('crc32c', w.bytes_seq(data))
    with w.stub(MC, 'crc32c', crc), w.stub(MD, 'crc32c', crc):
        data = root.to_boc(**C04.OPTS[opt])
        c1 = Cell.one_from_boc(data)
        c2 = Cell.from_boc(data)
        s = Slice.one_from_boc(data)
        b = Builder.one_from_boc(data)
        b2 = Builder.from_boc(data)
    w.claim('Cell.from_boc: one root, same as one_from_boc', len(c2) == 1 and c2[0].hash == c1.hash)
    w.claim('Cell root', _same(w, c1, root))
    w.claim('Slice root', w.And(w.eq_seq(bits_of(w, s), root._vf['bits']), len(s.refs) == 1, s.ref_offset == 0,
                                s.refs[0].hash == c1.refs[0].hash if len(s.refs) == 1 else False))
    w.claim('Builder root', w.And(w.eq_seq(bits_of(w, b), root._vf['bits']), len(b.refs) == 1,
                                  b.refs[0].hash == c1.refs[0].hash if len(b.refs) == 1 else False))
    w.claim('Builder.from_boc root', len(b2) == 1 and b2[0].hash == c1.hash)


# ---- bounded native ------------------------------------------------------------------------------------------------------

def _struct(c):
    return (c.bits.to01(), c.type_, tuple(_struct(r) for r in c.refs))


def _struct_memo(c, memo):
    """structural fingerprint, iterative (chains of depth 1023)"""
    stack = [c]
    while stack:
        x = stack[-1]
        todo = [r for r in x.refs if id(r) not in memo]
        if todo:
            stack.extend(todo)
            continue
        stack.pop()
        memo[id(x)] = hash((x.bits.to01(), x.type_, tuple(memo[id(r)] for r in x.refs)))
    return memo[id(c)]


@obligation('C03.native', 'C03', kind='bounded', samples=60, fuc=FUC,
            descr='bounded, native: random DAGs (sharing, repeated references, unaligned data, pruned-branch / library / Merkle cells), '
                  'wide DAGs of exactly 255/256/257 cells, chains of depth 1023 (the maximum), heavily shared ladders (two '
                  'references to the same child, depth 100); all 6 option sets x bytes/hex/base64 x Cell/Slice/Builder entry points: '
                  'identical hash and structure')
def native(w):
    from pytoniq_core.boc.cell import Cell
    from pytoniq_core.boc.slice import Slice
    from pytoniq_core.boc.builder import Builder
    rng = w.rng
    t = rng.random()
    if t < 0.1:
        c = Builder().store_uint(1, 8).end_cell()
        for i in range(1023):
            c = Builder().store_uint(i % 251, 8).store_ref(c).end_cell()
        root, kind = c, 'chain1023'
    elif t < 0.2:
        c = Builder().store_uint(1, 8).end_cell()
        for i in range(100):
            c = Builder().store_uint(i, 8).store_ref(c).store_ref(c).end_cell()
        root, kind = c, 'ladder100'
    elif t < 0.35:
        n = rng.choice([255, 256, 257])
        g = {i: [j for j in (4 * i + 1, 4 * i + 2, 4 * i + 3, 4 * i + 4) if j < n] for i in range(n)}
        root, kind = C04._native_dag(g, rng)[0], f'wide{n}'
    else:
        n = rng.randrange(1, 30)
        cells = []
        for i in range(n):
            b = Builder()
            b.store_bits(''.join(rng.choice('01') for _ in range(rng.choice([0, 1, 7, 8, 9, 33, 255, 1015, 1016, 1017, 1022, 1023]))))
            for _ in range(rng.randrange(0, min(4, len(cells)) + 1)):
                b.store_ref(rng.choice(cells))
            c = b.end_cell()
            if rng.random() < 0.15:      # wrap some subtrees: pruned branch of them inside a Merkle proof
                pr = Builder(type_=1).store_uint(1, 8).store_uint(1, 8).store_bytes(c.get_hash(0)).store_uint(c.get_depth(0), 16).end_cell()
                c = Builder(type_=3).store_uint(3, 8).store_bytes(c.get_hash(0)).store_uint(c.get_depth(0), 16).store_ref(pr).end_cell()
            elif rng.random() < 0.1:
                c = Builder(type_=2).store_uint(2, 8).store_bytes(bytes(rng.getrandbits(8) for _ in range(32))).end_cell()
            cells.append(c)
        root, kind = cells[-1], f'random{n}'
    w.used['kind'] = kind
    import sys
    sys.setrecursionlimit(max(sys.getrecursionlimit(), 5000))
    want = _struct_memo(root, {})
    for o in (C04.OPTS if kind.startswith('random') else C04.OPTS[::3]):
        k, data = call(root.to_boc, **o)
        if k != 'ok':
            w.claim(f'{kind} {o}: to_boc raised {type(data).__name__}: {data}', False)
            return
        for form in (data, data.hex(), base64.b64encode(data).decode()):
            for ep in ('cell', 'slice', 'builder'):
                try:
                    if ep == 'cell':
                        got = Cell.one_from_boc(form)
                    elif ep == 'slice':
                        got = Slice.one_from_boc(form).to_cell()
                    else:
                        got = Builder.one_from_boc(form).end_cell() if root.type_ == -1 else Cell.one_from_boc(form)
                except Exception as e:
                    w.claim(f'{kind} {o} {ep}: parse raised {type(e).__name__}: {e}', False)
                    return
                if got.hash != root.hash or _struct_memo(got, {}) != want:
                    w.claim(f'{kind} {o} {ep} {type(form).__name__}: round trip differs', False)
                    return
            if not kind.startswith('random'):
                break
    w.claim('round trips', True)
