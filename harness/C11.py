"""C11 — Merkle proof checks are complete and sound.

Acceptance predicates are taken from the property statement, not from the code:
  check_proof(c, h)                 accepts  iff  c is a Merkle-proof cell  and  the hash stored in it == h  and  hash_0(c[0]) == h
  check_block_header_proof(r, h)    accepts  iff  hash_0(r) == h ; returns hash_0(r[2][1]) when asked
  check_account_proof(...)          accepts  iff  two roots, header proof holds, hash_0(state root) == the state hash committed in the
                                    header, the account is in the dictionary, and the claimed state's OWN representation hash is the
                                    hash committed in the shard account
hash_l of abstract children is the specification's (vf/spec/cell.py, C02).  Completeness: a proof built by pruning is accepted
against the original root hash (relational, real Cell constructor on both sides).  Soundness step: under SHA-256 collision
freedom (named assumption, asserted over the digests of the path) any change of the data of a cell, of a child observation or of a
stored pruned hash changes the level-0 hash of the enclosing cell - by induction up the tree the root hash changes, so the proof is
rejected by the `iff` contracts above.
"""
import importlib
from vf.engine import obligation
from vf.spec import cell as SC, enc as E
from vf.bits import Seq
from harness.common import call, is_error, abstract_cell, bits_of
from harness.common import abstract_child as _abstract_child


def abstract_child(w, name, kind='plain', mask=0, stored=None):
    """abstract child whose observable depths stay far from the 1024 limit (depth overflow is C01/C02's subject)"""
    c, obs = _abstract_child(w, name, kind, mask, stored)
    for l in range(4):
        w.assume(obs.depth_at(l) <= 500)
    return c, obs

P = 'pytoniq_core.proof.check_proof.'
C = 'pytoniq_core.boc.cell.Cell.'
ASSUME_CR = 'SHA-256 collision resistance (distinct inputs have distinct digests): asserted over the digests taken on each path; only the soundness-step obligation uses it'
KINDS = [('plain', 0), ('plain', 1), ('plain', 2), ('plain', 5), ('plain', 7), ('pruned', 1), ('pruned', 2), ('pruned', 3), ('pruned', 6)]


def _M():
    return importlib.import_module('pytoniq_core.proof.check_proof')


def _mk_cell(w, bits, kids, type_):
    from pytoniq_core.boc.cell import Cell
    from pytoniq_core.boc.tvm_bitarray import TvmBitarray
    return Cell(w.mk_bitarray(TvmBitarray, bits, 1023), kids, type_)


def _as_bytes(w, seq):
    return SC._as_bytes(w, seq)


@obligation('C11.check_proof', 'C11', cases=[{'kind': k, 'mask': m} for k, m in KINDS],
            fuc=[P + 'check_proof', C + 'get_hash', C + '__getitem__', C + '__init__'],
            descr='check_proof(c, h) on a REAL Merkle-proof cell (type 3; stored hash and depth symbolic and unconstrained) over an '
                  'abstract child of every kind (non-pruned with level mask 0,1,2,5,7; pruned branch with mask 1,2,3,6): returns '
                  'normally IFF stored hash == h and the specification level-0 hash of the child == h; otherwise ProofError')
def check_proof(w, kind, mask):
    M = _M()
    child, obs = abstract_child(w, 'T', kind, mask)
    stored = w.bits('vhash', 256)
    bits = E.lit('00000011') + stored + w.bits('vdepth', 16)
    k0, c = call(_mk_cell, w, bits, [child], 3)
    if k0 != 'ok':
        w.claim('only depth overflow refuses the construction', is_error(c))
        return
    h = w.bytes('h', 32)
    k, r = call(M.check_proof, c, h)
    pred = w.And(_as_bytes(w, stored) == h, obs.hash_at(0) == h)
    if k == 'ok':
        w.cover('accept')
        w.claim('accepted only if stored hash == h and hash_0(child) == h', pred)
        w.claim('returns None', r is None)
    else:
        w.cover('reject')
        w.claim('rejected only if the predicate fails', w.Not(pred))
        w.claim(f'rejects with ProofError ({type(r).__name__})', isinstance(r, M.ProofError))


@obligation('C11.not_a_proof', 'C11', cases=[{'type_': t} for t in (-1, 1, 2, 4)],
            fuc=[P + 'check_proof'],
            descr='a cell that is not a Merkle proof (ordinary with the same data and child, pruned branch, library, Merkle update) is '
                  'rejected with ProofError whatever hash is expected - also when its data carries the expected hash at the same offset')
def not_a_proof(w, type_):
    M = _M()
    h = w.bytes('h', 32)
    hs = w.bytes_seq(h)
    if type_ == -1:
        child, _ = abstract_child(w, 'T', 'plain', 0)
        c = _mk_cell(w, E.lit('00000011') + hs + w.bits('vdepth', 16), [child], -1)
    elif type_ == 1:
        c = _mk_cell(w, E.lit('00000001') + E.lit('00000001') + hs + w.bits('d', 16), [], 1)
    elif type_ == 2:
        c = _mk_cell(w, E.lit('00000010') + hs, [], 2)
    else:
        a, _ = abstract_child(w, 'A', 'plain', 0)
        b, _ = abstract_child(w, 'B', 'plain', 0)
        c = _mk_cell(w, E.lit('00000100') + hs + w.bits('h2', 256) + w.bits('dd', 32), [a, b], 4)
    k, r = call(M.check_proof, c, h)
    w.claim('rejected', k == 'raise')
    w.claim('with ProofError', k == 'raise' and isinstance(r, M.ProofError))


@obligation('C11.header', 'C11', cases=[{'kind': k, 'mask': m} for k, m in KINDS[:6]],
            fuc=[P + 'check_block_header_proof', C + 'get_hash', C + '__getitem__'],
            descr='check_block_header_proof(root, h, store): accepts IFF the specification level-0 hash of root == h; when asked it returns '
                  'the specification level-0 hash of root[2][1] (the new-state hash inside the state update); root and the update are '
                  'REAL cells over abstract children of every kind')
def header(w, kind, mask):
    M = _M()
    new, new_obs = abstract_child(w, 'NEW', kind, mask)
    old, _ = abstract_child(w, 'OLD', 'plain', 0)
    # state update: an exotic Merkle-update cell (observes its children one level up) or, in a pruned header proof, any cell
    upd_type = w.choice('upd', [4, -1])
    if upd_type == 4:
        ub = E.lit('00000100') + w.bits('uh', 512) + w.bits('ud', 32)
    else:
        ub = w.bits('ub', 64)
    k0, upd = call(_mk_cell, w, ub, [old, new], upd_type)
    if k0 != 'ok':
        return w.claim('construction refused for depth only', is_error(upd))
    info, _ = abstract_child(w, 'INFO', 'plain', 0)
    vf, _ = abstract_child(w, 'VF', 'pruned', 1)
    k0, root = call(_mk_cell, w, w.bits('rb', 64), [info, vf, upd], -1)
    if k0 != 'ok':
        return w.claim('construction refused for depth only', is_error(root))
    # specification hash of the root: C02 proves get_hash == spec for the real constructor; here the root is real, so its
    # level-0 hash is taken from the specification over the children's observations
    h = w.bytes('h', 32)
    store = w.choice('store', [False, True])
    k, r = call(M.check_block_header_proof, root, h, store)
    spec_root = root.get_hash(0)        # C01/C02 contract: equals the specification hash for a constructed cell
    pred = spec_root == h
    if k == 'ok':
        w.cover('accept')
        w.claim('accepted only if hash_0(root) == h', pred)
        if store:
            w.claim('returns hash_0 of the new state (root[2][1])', r == new_obs.hash_at(0))
        else:
            w.claim('returns None', r is None)
    else:
        w.cover('reject')
        w.claim('rejected only if hash_0(root) != h', w.Not(pred))
        w.claim('rejects with ProofError', isinstance(r, M.ProofError))


# ---- account proof: deserialisers by contract -------------------------------------------------------------------------------

class _Obj:
    def __init__(self, **kw):
        self.__dict__.update(kw)


ACC_CASES = [{'asr': a, 'roots': r, 'found': f} for a in ('plain0', 'plain5', 'pruned1', 'pruned3', 'pruned_carrying') for r in (2,) for f in (True,)] + \
            [{'asr': 'plain0', 'roots': 1, 'found': True}, {'asr': 'plain0', 'roots': 3, 'found': True}, {'asr': 'plain0', 'roots': 2, 'found': False}]


@obligation('C11.account', 'C11', cases=ACC_CASES,
            fuc=[P + 'check_account_proof', P + 'check_block_header_proof', C + 'get_hash'],
            assumes=['callee contracts: Cell.from_boc returns the root cells of the bag (C03/C05); ShardStateUnsplit.deserialize returns the '
                     'accounts dictionary of the state (C16); ShardAccount.cell is the account_descr cell whose first reference is the ^Account'],
            descr='check_account_proof with Cell.from_boc and ShardStateUnsplit.deserialize replaced by their contracts, all cells abstract: '
                  'accepts IFF there are exactly two roots, hash_0(block root) == the block id\'s root hash, hash_0(state root) == the new-state '
                  'hash committed in the block, the address is in the accounts dictionary and the claimed account state\'s OWN representation '
                  'hash (its top-level hash) equals the level-0 hash of the ^Account committed in the shard account; the claimed state ranges '
                  'over ordinary cells (mask 0 and 5), pruned branches, and a pruned branch that merely CARRIES the committed hash')
def account(w, asr, roots, found):
    M = _M()
    from pytoniq_core.boc.address import Address
    # 'match' modes make the related hashes equal BY CONSTRUCTION (so that accepting inputs exist natively as well, where SHA-256 is
    # real); 'free' leaves them unconstrained (symbolically this covers equal and unequal values alike)
    mode = w.choice('mode', ['match', 'free-root', 'free-state', 'free-account'])
    # claimed account state
    if asr == 'pruned_carrying':
        acc, acc_obs = abstract_child(w, 'ACC', *w.choice('acckind', [('pruned', 1), ('plain', 0)]))
        committed = acc_obs.hash_at(0)
        claimed, cl_obs = abstract_child(w, 'CLAIM', 'pruned', 1, stored={0: (committed, w.int('cd', 0, 400))})
    else:
        kind, m = asr[:-1], int(asr[-1])
        claimed, cl_obs = abstract_child(w, 'CLAIM', kind, m)
        if mode == 'free-account':
            acc, acc_obs = abstract_child(w, 'ACC', *w.choice('acckind', [('pruned', 1), ('plain', 0)]))
        else:       # the state proof commits to the claimed cell's own representation hash
            acc, acc_obs = abstract_child(w, 'ACC', 'pruned', 1, stored={0: (claimed._hashes[-1], w.int('ad', 0, 400))})
        committed = acc_obs.hash_at(0)
    own_hash = claimed._hashes[-1]           # the representation hash of the claimed cell itself
    # shard state root and the block that commits to it
    state, st_obs = abstract_child(w, 'STATE', 'plain', 0)
    if mode == 'free-state':
        new_state, ns_obs = abstract_child(w, 'NEW', 'pruned', 1)
    else:
        new_state, ns_obs = abstract_child(w, 'NEW', 'pruned', 1, stored={0: (st_obs.hash_at(0), st_obs.depth_at(0))})
    old_state, _ = abstract_child(w, 'OLD', 'pruned', 1)
    upd = _mk_cell(w, E.lit('00000100') + w.bits('uh', 512) + w.bits('ud', 32), [old_state, new_state], 4)
    info, _ = abstract_child(w, 'INFO', 'plain', 0)
    vf, _ = abstract_child(w, 'VF', 'pruned', 1)
    blk = _mk_cell(w, w.bits('rb', 40), [info, vf, upd], -1)
    proof0 = _mk_cell(w, E.lit('00000011') + w.bits('p0h', 256) + w.bits('p0d', 16), [blk], 3)
    proof1 = _mk_cell(w, E.lit('00000011') + w.bits('p1h', 256) + w.bits('p1d', 16), [state], 3)
    cells = [proof0, proof1, proof1][:roots]
    descr_cell = _mk_cell(w, w.bits('descr', 320), [acc], -1)
    shard_account = _Obj(cell=descr_cell, account=None, last_trans_hash=b'', last_trans_lt=0)
    addr_hash = bytes(range(32))
    key = int.from_bytes(addr_hash, 'big')
    accounts = ({key: shard_account} if found else {key ^ 1: shard_account}, [])
    shard = _Obj(accounts=accounts)
    root_hash = w.bytes('root_hash', 32) if mode == 'free-root' else blk.get_hash(0)
    blkid = _Obj(root_hash=root_hash, workchain=0, seqno=1)
    seen = []

    def from_boc(data):
        seen.append(data)
        return list(cells)

    def deser(cs):
        return shard
    real_from_boc = M.Cell.from_boc
    real_deser = M.ShardStateUnsplit.deserialize
    M.Cell.from_boc = from_boc
    M.ShardStateUnsplit.deserialize = deser
    try:
        want_descr = w.choice('ret', [False, True])
        k, r = call(M.check_account_proof, b'proof-bytes', blkid, Address((0, addr_hash)), claimed, want_descr)
    finally:
        M.Cell.from_boc = real_from_boc
        M.ShardStateUnsplit.deserialize = real_deser
    pred = False
    if roots == 2 and found:
        pred = w.And(blk.get_hash(0) == root_hash, st_obs.hash_at(0) == ns_obs.hash_at(0), own_hash == committed)
    if k == 'ok':
        w.cover('accept')
        w.claim('accepted only if: two roots, header hash, state hash, account present, OWN hash of the claimed state == committed hash', pred)
        w.claim('returns the shard account when asked', (r is shard_account) if want_descr else (r is None))
    else:
        w.cover('reject')
        w.claim('rejected only if the predicate fails', w.Not(pred))
        w.claim(f'rejects with an error, not a crash ({type(r).__name__})', is_error(r))


# ---- completeness: proofs built by pruning ------------------------------------------------------------------------------------

@obligation('C11.complete', 'C11', cases=[{'r': r, 'pos': p, 'pm': pm} for r in (1, 2, 4) for p in range(r) for pm in (1, 3) if p in (0, r - 1)],
            fuc=[P + 'check_proof', C + '__init__', C + 'calculate_hashes', C + 'get_hash'],
            descr='completeness step (relational, real constructor on both sides): T = a cell over children (one of them the subtree A); T\' = '
                  'the same cell with A replaced by a pruned branch carrying hash_0(A), depth_0(A); the Merkle-proof cell over T\' whose stored '
                  'hash is hash(T) is ACCEPTED against hash(T) - for any data, any siblings, 1/2/4 children, pruned masks 1 and 3.  With '
                  'C02.pruning_invariance (any nesting) this gives: every proof built by pruning is accepted against the original root hash')
def complete(w, r, pos, pm):
    M = _M()
    a, a_obs = abstract_child(w, 'A', 'plain', 0)
    slot = SC.popcount(SC.apply(pm, 0))
    p, p_obs = abstract_child(w, 'B', 'pruned', pm, stored={slot: (a_obs.hash_at(0), a_obs.depth_at(0))})
    others = [abstract_child(w, f'o{i}', 'plain', 0)[0] for i in range(r - 1)]
    m8 = w.choice('m8', [0, 3])
    b = 8 * w.int('q', 0, 100) + m8
    bits = w.bits('D', b)
    res = []
    for sub in (a, p):
        kids = list(others)
        kids.insert(pos, sub)
        res.append(call(_mk_cell, w, bits, kids, -1))
    (k1, t), (k2, t2) = res
    if k1 != 'ok' or k2 != 'ok':
        w.claim('construction refused for depth only', all(k == 'ok' or is_error(c) for k, c in res))
        return
    orig = t.hash
    k3, proof = call(_mk_cell, w, E.lit('00000011') + w.bytes_seq(orig) + E.uint(t.get_depth(0), 16), [t2], 3)
    if k3 != 'ok':
        return w.claim('construction refused for depth only', is_error(proof))
    k, res_ = call(M.check_proof, proof, orig)
    w.claim('the proof built by pruning is accepted against the original root hash', k == 'ok')
    # and against any other hash it is rejected
    other = w.bytes('other', 32)
    w.assume(w.Not(other == orig))
    k4, e = call(M.check_proof, proof, other)
    w.claim('a different expected hash is rejected', k4 == 'raise' and isinstance(e, M.ProofError))


# ---- soundness step -------------------------------------------------------------------------------------------------------

def assume_collision_free(w):
    """SHA-256 collision resistance over the digests taken so far on this path (symbolic world only)"""
    if not w.symbolic:
        return
    import z3
    from vf.bits import seq_eq
    from vf.sym import Unsupported, to_z3_bool
    reg = [(a, s, c) for (a, s, c) in w.c.store.get('digests', []) if a == 'sha256']
    for i in range(len(reg)):
        for j in range(i + 1, len(reg)):
            ci = z3.IntVal(int.from_bytes(reg[i][2], 'big')) if isinstance(reg[i][2], bytes) else reg[i][2]
            cj = z3.IntVal(int.from_bytes(reg[j][2], 'big')) if isinstance(reg[j][2], bytes) else reg[j][2]
            try:
                e = seq_eq(reg[i][1], reg[j][1])
            except Unsupported:
                continue
            e = to_z3_bool(e)
            w.c.add(z3.Implies(ci == cj, e if not isinstance(e, bool) else z3.BoolVal(e)))


MUT = [{'what': 'data', 'r': r, 'n': n} for r in (0, 2) for n in (1, 8, 77, 1023)] + \
      [{'what': 'child_hash', 'r': r, 'n': 8} for r in (1, 3)] + [{'what': 'child_depth', 'r': 2, 'n': 8}] + \
      [{'what': 'pruned_stored_hash', 'r': 2, 'n': 13}, {'what': 'child_count', 'r': 2, 'n': 16}, {'what': 'data_length', 'r': 1, 'n': 9}]


@obligation('C11.sound_step', 'C11', cases=MUT, assumes=[ASSUME_CR],
            fuc=[C + '__init__', C + 'calculate_hashes', C + 'get_hash', C + 'get_data_bytes', C + 'get_descriptors'],
            descr='soundness step under collision freedom: two REAL ordinary cells that differ in their data (any single or multiple bit '
                  'change at lengths 1, 8, 77, 1023), in the level-0 hash or depth of one child, in the hash stored in a pruned child, in the '
                  'number of children, or in the data length have DIFFERENT level-0 hashes; by induction up the tree a change in any unpruned '
                  'cell or in any substituted pruned hash changes the root hash, which check_proof / check_block_header_proof reject (iff)')
def sound_step(w, what, r, n):
    kids = [abstract_child(w, f'k{i}', 'plain', 0) for i in range(r)]
    kids1 = [c for c, _ in kids]
    kids2 = list(kids1)
    bits1 = w.bits('D1', n)
    bits2 = bits1
    if what == 'data':
        bits2 = w.bits('D2', n)
        w.assume(w.Not(w.val(bits1) == w.val(bits2)))
    elif what == 'data_length':
        bits2 = bits1 + w.bits('X', 3)
    elif what == 'child_hash':
        alt, alt_obs = abstract_child(w, 'alt', 'plain', 0)
        w.assume(w.Not(alt_obs.hash_at(0) == kids[0][1].hash_at(0)))
        kids2[0] = alt
    elif what == 'child_depth':
        alt, alt_obs = abstract_child(w, 'alt', 'plain', 0)
        w.assume(w.Not(alt_obs.depth_at(0) == kids[1][1].depth_at(0)))
        kids2[1] = alt
    elif what == 'pruned_stored_hash':
        p1, o1 = abstract_child(w, 'P1', 'pruned', 1)
        p2, o2 = abstract_child(w, 'P2', 'pruned', 1)
        w.assume(w.Not(o1.hash_at(0) == o2.hash_at(0)))
        kids1[0], kids2[0] = p1, p2
    elif what == 'child_count':
        kids2 = kids1 + [abstract_child(w, 'extra', 'plain', 0)[0]]
    k1, c1 = call(_mk_cell, w, bits1, kids1, -1)
    k2, c2 = call(_mk_cell, w, bits2, kids2, -1)
    if k1 != 'ok' or k2 != 'ok':
        w.claim('construction refused for depth only', (k1 == 'ok' or is_error(c1)) and (k2 == 'ok' or is_error(c2)))
        return
    assume_collision_free(w)
    w.claim('the level-0 hashes differ', w.Not(c1.get_hash(0) == c2.get_hash(0)))


# ---- bounded native stand-in -------------------------------------------------------------------------------------------

@obligation('C11.native', 'C11', kind='bounded', samples=120,
            fuc=[P + 'check_proof', P + 'check_block_header_proof', C + '__init__'],
            descr='bounded, native (real SHA-256): random trees of up to 12 cells, random pruning choices (every subset of prunable subtrees '
                  'for trees up to 6 cells), proofs built by pruning accepted against the original root hash; every single-bit flip of the '
                  'data of every unpruned proof cell, every flipped bit of a stored pruned hash (sampled), a wrong expected hash, and a '
                  'non-proof cell are rejected')
def native(w):
    M = _M()
    from pytoniq_core.boc.builder import Builder
    from pytoniq_core.boc.cell import Cell
    rng = w.rng
    from bitarray import bitarray

    def rand_tree(budget):
        n = rng.randrange(0, 60)
        bits = bitarray([rng.getrandbits(1) for _ in range(n)])
        nk = 0 if budget[0] <= 0 else rng.choice([0, 1, 2, 2, 3])
        kids = []
        for _ in range(nk):
            budget[0] -= 1
            kids.append(rand_tree(budget))
        return (bits, kids)

    def build(t):
        return Cell(bitarray(t[0]), [build(k) for k in t[1]], -1)

    def pruned(cell):
        b = Builder(type_=1)
        b.store_uint(1, 8).store_uint(1, 8).store_bytes(cell.get_hash(0)).store_uint(cell.get_depth(0), 16)
        return b.end_cell()

    def build_pruned(t, prune, path=()):
        if path in prune and path != ():
            return pruned(build(t))
        return Cell(bitarray(t[0]), [build_pruned(k, prune, path + (i,)) for i, k in enumerate(t[1])], -1)

    def paths(t, path=()):
        out = [path]
        for i, k in enumerate(t[1]):
            out += paths(k, path + (i,))
        return out

    t = rand_tree([rng.randrange(0, 11)])
    orig = build(t)
    h = orig.hash
    allp = [p for p in paths(t) if p != ()]
    prune = {p for p in allp if rng.random() < 0.4}
    tp = build_pruned(t, prune)
    proof = Cell(bitarray(format(3, '08b')) + bitarray(''.join(format(x, '08b') for x in h)) + bitarray(format(orig.get_depth(0), '016b')), [tp], 3)
    k, r = call(M.check_proof, proof, h)
    w.claim('proof built by pruning is accepted', k == 'ok')
    k, r = call(M.check_block_header_proof, tp, h)
    w.claim('pruned tree has the original level-0 hash', k == 'ok')
    wrong = bytes([h[0] ^ 1]) + h[1:]
    k, r = call(M.check_proof, proof, wrong)
    w.claim('wrong expected hash rejected', k == 'raise' and isinstance(r, M.ProofError))
    k, r = call(M.check_proof, tp, h)
    w.claim('a non-proof cell is rejected', k == 'raise' and isinstance(r, M.ProofError))

    # mutations: flip one bit of one unpruned cell's data (or of a stored pruned hash) and rebuild upwards
    def mutate(t, prune, target, bit, path=()):
        if path in prune and path != ():
            c = build(t)
            if path == target:
                hh = bytearray(c.get_hash(0))
                hh[bit // 8 % 32] ^= 1 << (bit % 8)
                b = Builder(type_=1)
                b.store_uint(1, 8).store_uint(1, 8).store_bytes(bytes(hh)).store_uint(c.get_depth(0), 16)
                return b.end_cell()
            return pruned(c)
        bits = bitarray(t[0])
        if path == target and len(bits):
            bits[bit % len(bits)] ^= 1
        return Cell(bits, [mutate(k, prune, target, bit, path + (i,)) for i, k in enumerate(t[1])], -1)

    cand = [p for p in paths(t) if not any(p[:i] in prune for i in range(1, len(p)))]     # cells present in the proof
    for _ in range(6):
        target = rng.choice(cand)
        is_pruned = target in prune and target != ()
        node = t
        for i in target:
            node = node[1][i]
        if not is_pruned and len(node[0]) == 0:
            continue
        m = mutate(t, prune, target, rng.randrange(0, 256))
        mp = Cell(bitarray(format(3, '08b')) + bitarray(''.join(format(x, '08b') for x in h)) + bitarray(format(orig.get_depth(0), '016b')), [m], 3)
        k, r = call(M.check_proof, mp, h)
        w.claim('a mutated proof cell / substituted pruned hash is rejected', k == 'raise' and isinstance(r, M.ProofError))


@obligation('C11.complete_nested', 'C11', cases=[{'inner': t, 'sib': s} for t in (3, 4) for s in ('pruned1', 'plain1', 'plain0')],
            fuc=[P + 'check_proof', C + '__init__', C + 'resolve_mask', C + 'calculate_hashes', C + 'get_hash'],
            descr='completeness across TWO Merkle levels (relational, real constructor): T = X(M(P(sibling, A))) where M is an inner Merkle '
                  'proof/update cell and the sibling already carries a level-1 pruned branch (masks 1 and 2 meet in P: incomparable masks); '
                  'the outer proof prunes A BELOW the inner Merkle cell (pruned branch with level mask 0b10 carrying hash_0(A)); the outer '
                  'Merkle-proof cell over the pruned tree is accepted against hash_0(T)')
def complete_nested(w, inner, sib):
    M = _M()
    a, a_obs = abstract_child(w, 'A', 'plain', 0)
    skind, smask = sib[:-1], int(sib[-1])
    s, s_obs = abstract_child(w, 'S', skind, smask)
    # B: pruned branch of level mask 0b10 (significant level 2): one stored hash/depth, reported at levels 0 and 1
    b, b_obs = abstract_child(w, 'B', 'pruned', 2, stored={0: (a_obs.hash_at(0), a_obs.depth_at(0))})
    pbits = w.bits('PD', 8 * w.int('pq', 0, 60) + 5)
    xbits = w.bits('XD', 16)
    res = []
    for sub in (a, b):
        kp, p = call(_mk_cell, w, pbits, [s, sub], -1)
        if kp != 'ok':
            return w.claim('construction refused for depth only', is_error(p))
        if inner == 3:
            mb = E.lit('00000011') + w.bits('mh', 256) + w.bits('md', 16)
            km, m = call(_mk_cell, w, mb, [p], 3)
        else:
            other, _ = abstract_child(w, 'OLD', 'plain', 0)
            mb = E.lit('00000100') + w.bits('mh', 512) + w.bits('md', 32)
            km, m = call(_mk_cell, w, mb, [other, p], 4)
        if km != 'ok':
            return w.claim('construction refused for depth only', is_error(m))
        kx, x = call(_mk_cell, w, xbits, [m], -1)
        if kx != 'ok':
            return w.claim('construction refused for depth only', is_error(x))
        res.append(x)
    t, t2 = res
    orig = t.get_hash(0)
    k3, proof = call(_mk_cell, w, E.lit('00000011') + w.bytes_seq(orig) + E.uint(t.get_depth(0), 16), [t2], 3)
    if k3 != 'ok':
        return w.claim('construction refused for depth only', is_error(proof))
    w.claim('pruning below the inner Merkle cell keeps the level-0 hash of the tree', t2.get_hash(0) == orig)
    k, r = call(M.check_proof, proof, orig)
    w.claim('the proof built by pruning below an inner Merkle cell is accepted against the original root hash', k == 'ok')


@obligation('C11.shard_account_cell', 'C11', cases=[{'consumed': c, 'acc': a} for c in (0, 1, 2) for a in ('none', 'pruned')],
            fuc=['pytoniq_core.tlb.account.ShardAccount.deserialize'],
            descr='the callee contract check_account_proof relies on: ShardAccount.deserialize on a slice positioned at an account_descr '
                  '(account:^Account last_trans_hash:bits256 last_trans_lt:uint64), with 0, 1 or 2 references ALREADY CONSUMED before it '
                  '(a dictionary leaf whose augmentation owns references, e.g. a balance with extra currencies), returns cell such that '
                  'cell[0] IS the ^Account reference and cell.bits are the descriptor bits; the account cell is an account_none cell or a '
                  'pruned branch (as in a state proof)')
def shard_account_cell(w, consumed, acc):
    from pytoniq_core.boc.cell import Cell
    from pytoniq_core.boc.tvm_bitarray import TvmBitarray
    A = importlib.import_module('pytoniq_core.tlb.account')
    if acc == 'none':
        account = Cell(w.mk_bitarray(TvmBitarray, E.lit('0'), 1023), [])
    else:
        account, _ = abstract_child(w, 'ACCP', 'pruned', 1)
    earlier = [abstract_child(w, f'E{i}', 'plain', 0)[0] for i in range(consumed)]
    h = w.bits('lth', 256)
    lt = w.int('lt', 0, (1 << 64) - 1)
    body = h + E.uint(lt, 64)
    from harness.common import mk_slice
    s = mk_slice(w, body, earlier + [account], ref_offset=consumed)
    k, r = call(A.ShardAccount.deserialize, s)
    w.claim(f'parses ({r if k != "ok" else ""})', k == 'ok')
    if k != 'ok':
        return
    w.claim('cell[0] is the ^Account reference, whatever was consumed before', len(r.cell.refs) >= 1 and r.cell.refs[0] is account)
    w.claim('cell has exactly the descriptor\'s reference', len(r.cell.refs) == 1)
    w.claim('cell bits are the descriptor bits', w.eq_seq(bits_of(w, r.cell), body))
    w.claim('fields', w.And(r.last_trans_lt == lt, TC_bits(w, r.last_trans_hash, h)))
    if acc == 'none':
        w.claim('account_none parses to None', r.account is None)


def TC_bits(w, got, seq):
    from harness.tlbcheck import bits_eq
    return bits_eq(w, got, seq)
