"""C07 — cell capacity, value ranges and read bounds are enforced.

P1/P2  every store operation (re-used from C06) carries the two-sided capacity clause:
         raises  iff  value unrepresentable  or  |bits|+|enc| > 1023  or  |refs|+|new| > 4 ;  Inv(Builder) preserved
       plus store_cell / store_slice (incl. partly consumed slices).
P4     every consuming read on an OPAQUE slice of symbolic length r: raises iff fewer bits/refs remain than requested,
       otherwise returns data of exactly the requested length and consumes exactly that much.
P5     every library route that makes a Slice hands it capacity-checked bits, also for Cell(plain bitarray).
"""
from vf.engine import obligation, REGISTRY
from vf.spec import enc as E
from vf.bits import Seq
from harness.common import (mk_builder, mk_slice, bits_of, call, check_store, Child, is_error, same_objects, abstract_cell)
import harness.C06 as C06

B = 'pytoniq_core.boc.builder.Builder.'
S = 'pytoniq_core.boc.slice.Slice.'
T = 'pytoniq_core.boc.tvm_bitarray.TvmBitarray.'

# ---- P1/P2: the store contracts of C06, claimed here for their capacity clauses -------------------------------------
for _oid in ['store_uint', 'store_int', 'store_var_uint', 'store_var_int', 'store_bit', 'store_bits', 'bytes', 'refs',
             'address', 'string']:
    _o = REGISTRY['C06.' + _oid]
    _cases = _o.cases
    if _oid in ('store_uint', 'store_int'):
        _cases = [c for c in _cases if c['n'] in (1, 2, 7, 8, 9, 31, 32, 33, 63, 64, 65, 127, 128, 255, 256, 257)]
    obligation('C07.' + _oid, 'C07', cases=_cases, fuc=_o.fuc, descr='[capacity/range clauses] ' + _o.descr,
               samples=_o.samples, assumes=_o.assumes, inlined=_o.inlined)(_o.fn)


@obligation('C07.width0', 'C07', cases=[{'op': op, 'n': n} for op in ('store_uint', 'store_int') for n in (0, -1)],
            fuc=[B + 'store_uint', B + 'store_int'], inlined=['bitarray.util.int2ba (model T1)'],
            descr='the lower end of "every width": store_uint / store_int with a stated width of 0 (or a negative one) at every fill '
                  'level, for ALL values: a value other than 0 does not fit and is refused with an error - never accepted and silently '
                  'dropped; a negative width is always refused; whatever the outcome, the builder holds what it held before (whether '
                  'the value 0 at width 0 is accepted or refused is not decided here: width 0 is outside the widths 1..257 of C06)')
def width0(w, op, n):
    p = w.int('p', 0, 1023)
    refs = [Child(i) for i in range(2)]
    b, pre = mk_builder(w, p, refs)
    v = w.int('v')
    k, out = call(getattr(b, op), v, n)
    if k == 'ok':
        w.cover('ok')
        w.claim('accepted only if the value fits the stated width (width 0: the value 0)', w.And(n == 0, v == 0))
    else:
        w.cover('raise')
        w.claim(f'refusal is an API error ({type(out).__name__})', is_error(out))
    w.claim('builder content unchanged', w.And(w.eq_seq(bits_of(w, b), pre), same_objects(b.refs, refs)))


@obligation('C07.snake_capacity', 'C07', cases=[{'q': q, 'p8': p8, 'n': n, 'via': v} for q in (3, 4) for (p8, n) in ((0, 127), (0, 128), (127, 0), (127, 1), (100, 27), (100, 28), (0, 300))
                                                for v in ('bytes', 'string')],
            fuc=[B + 'store_snake_bytes', B + 'store_snake_string', B + 'store_ref', B + 'store_bytes'],
            descr='reference capacity of the snake stores: a builder holding q = 3 or 4 references and p8 bytes receives a snake value of n '
                  'bytes (contents symbolic): when a continuation cell is needed and all four references are taken the store is refused; '
                  'it is never refused otherwise; the builder never ends with more than 4 references or 1023 bits')
def snake_capacity(w, q, p8, n, via):
    from pytoniq_core.boc.builder import Builder
    refs = [Child(i) for i in range(q)]
    b, pre = mk_builder(w, 8 * p8, refs)
    raw = w.bytes('D', n)
    if via == 'string':
        if w.symbolic:
            from vf.shims import SymText
            val = SymText(raw) if type(raw) is not bytes else raw.decode('latin1')
        else:
            raw = bytes((x % 95) + 32 for x in raw)
            val = raw.decode()
        k, out = call(b.store_snake_string, val)
    else:
        k, out = call(b.store_snake_bytes, raw)
    needs_ref = n > 127 - p8
    if k == 'raise':
        w.cover('raise')
        w.claim('refused only when a continuation cell is needed and no reference slot is free', needs_ref and q == 4)
        w.claim(f'refusal is an API error ({type(out).__name__})', is_error(out))
    else:
        w.cover('ok')
        w.claim('never accepted when the continuation reference does not fit', not (needs_ref and q == 4))
        w.claim('returns self', out is b)
        w.claim('references: the old ones, plus one continuation when needed',
                len(b.refs) == q + (1 if needs_ref else 0) and same_objects(b.refs[:q], refs))
    w.claim('capacity invariant', w.And(w.seq_of(b.bits).length() <= 1023, len(b.refs) <= 4))


@obligation('C07.accessors', 'C07', cases=[{'q': q, 'off': off} for q in range(5) for off in range(q + 1)],
            fuc=[B + 'used_bits', B + 'available_bits', B + 'available_bytes', B + 'available_refs', S + 'remaining_bits', S + 'remaining_refs',
                 S + 'is_special'],
            descr='the capacity accessors: for a builder holding p bits (symbolic) and q references used_bits = p, available_bits = 1023 - p, '
                  'available_bytes = floor((1023 - p) / 8), available_refs = 4 - q; for a slice with r remaining bits and q references of '
                  'which `off` are consumed remaining_bits = r, remaining_refs = q - off; is_special() iff the cell type is not ordinary')
def accessors(w, q, off):
    p = w.int('p', 0, 1023)
    refs = [Child(i) for i in range(q)]
    b, pre = mk_builder(w, p, refs)
    w.claim('used_bits', b.used_bits == p)
    w.claim('available_bits', b.available_bits == 1023 - p)
    ab = b.available_bytes
    w.claim('available_bytes', w.And(8 * ab <= 1023 - p, 1023 - p < 8 * ab + 8))
    w.claim('available_refs', b.available_refs == 4 - q)
    r = w.int('r', 0, 1023)
    s = mk_slice(w, w.bits('R', r), refs, ref_offset=off)
    w.claim('remaining_bits', s.remaining_bits == r)
    w.claim('remaining_refs', s.remaining_refs == q - off)
    w.claim('ordinary slice is not special', s.is_special() is False)
    for t in (1, 2, 3, 4):
        w.claim(f'slice of an exotic cell (type {t}) is special', mk_slice(w, w.bits('X', 8), [], type_=t).is_special() is True)


@obligation('C07.store_cell', 'C07', cases=[{'q': q, 'j': j} for q in range(5) for j in range(5)],
            fuc=[B + 'store_cell', B + 'store_bits', T + 'extend', T + 'check_overflow'],
            descr='store_cell of a cell with k bits (symbolic) and j refs into a builder with p bits and q refs')
def store_cell(w, q, j):
    p = w.int('p', 0, 1023)
    refs = [Child(i) for i in range(q)]
    b, pre = mk_builder(w, p, refs)
    c = abstract_cell(w, 'c', nrefs=j)
    data = bits_of(w, c)
    out = call(b.store_cell, c)
    check_store(w, b, pre, refs, out, data, c.refs, False)
    w.claim('source cell untouched', w.eq_seq(bits_of(w, c), data) and len(c.refs) == j)


@obligation('C07.store_slice', 'C07', cases=[{'q': q, 'j': j, 'off': off} for q in range(5) for j in range(5) for off in range(j + 1)],
            fuc=[B + 'store_slice', B + 'store_ref', B + 'store_bits'],
            descr='store_slice of a slice with k remaining bits and j refs of which `off` are already consumed: only the '
                  'remaining j-off refs count against capacity and are appended')
def store_slice(w, q, j, off):
    p = w.int('p', 0, 1023)
    refs = [Child(i) for i in range(q)]
    b, pre = mk_builder(w, p, refs)
    k = w.int('k', 0, 1023)
    data = w.bits('D', k)
    kids = [Child(f's{i}') for i in range(j)]
    s = mk_slice(w, data, kids, ref_offset=off)
    out = call(b.store_slice, s)
    check_store(w, b, pre, refs, out, data, kids[off:], False)
    w.claim('source slice untouched', w.And(w.eq_seq(bits_of(w, s), data), same_objects(s.refs, kids), s.ref_offset == off))


# ---- P4: over-reads ------------------------------------------------------------------------------------------------

def _opaque_slice(w, q=2, off=0):
    r = w.int('r', 0, 1023)
    data = w.bits('S', r)
    kids = [Child(i) for i in range(q)]
    return mk_slice(w, data, kids, ref_offset=off), data, r, kids


def _fixed(w, n, op, wellformed):
    s, data, r, kids = _opaque_slice(w)
    k, got = call(op, s)
    if k == 'raise':
        w.cover('raise')
        w.claim('raises only when fewer bits remain than requested', r < n)
        w.claim(f'exception is an API error ({type(got).__name__})', is_error(got))
    else:
        w.cover('ok')
        w.claim('never returns when fewer bits remain', r >= n)
        head, rest = data.take_front(n)
        w.claim('result is exactly the next n bits', wellformed(got, head))
        w.claim('consumes exactly n bits', w.eq_seq(bits_of(w, s), rest))
        w.claim('refs untouched', same_objects(s.refs, kids) and s.ref_offset == 0)


NS = (1, 2, 8, 9, 32, 64, 256, 257, 1023)


@obligation('C07.read.uint', 'C07', cases=[{'n': n, 'signed': sg} for n in NS for sg in (False, True)],
            fuc=[S + 'load_uint', S + 'load_int', T + '__delitem__', T + 'check_underflow'],
            descr='load_uint/load_int(n) on an opaque slice of symbolic length r: raises iff r < n; else value of the '
                  'next n bits, consumes n')
def read_uint(w, n, signed):
    def ok(got, head):
        v = w.val(head)
        if signed:
            v = w.ite(v >= (1 << (n - 1)), v - (1 << n), v)
        return got == v
    _fixed(w, n, (lambda s: s.load_int(n)) if signed else (lambda s: s.load_uint(n)), ok)


@obligation('C07.read.bits', 'C07', cases=[{'n': n, 'op': op} for n in (0,) + NS for op in ('bits', 'skip')] +
            [{'n': 1, 'op': 'bit'}, {'n': 1, 'op': 'bool'}] + [{'n': 8 * k, 'op': 'bytes'} for k in (0, 1, 32, 127)],
            fuc=[S + 'load_bits', S + 'skip_bits', S + 'load_bit', S + 'load_bool', S + 'load_bytes'],
            descr='load_bits / skip_bits / load_bit / load_bool / load_bytes on an opaque slice: raises iff short')
def read_bits(w, n, op):
    if op == 'bits':
        _fixed(w, n, lambda s: s.load_bits(n), lambda got, head: w.eq_seq(w.seq_of(got), head))
    elif op == 'skip':
        _fixed(w, n, lambda s: s.skip_bits(n), lambda got, head: True)
    elif op == 'bit':
        _fixed(w, 1, lambda s: s.load_bit(), lambda got, head: got == w.val(head))
    elif op == 'bool':
        _fixed(w, 1, lambda s: s.load_bool(), lambda got, head: w.And(w.Implies(got, w.val(head) == 1), w.Implies(w.val(head) == 1, got)))
    else:
        _fixed(w, n, lambda s: s.load_bytes(n // 8), lambda got, head: w.eq_seq(w.bytes_seq(got), head))


@obligation('C07.read.var', 'C07', cases=[{'lbits': lb, 'signed': sg} for lb in (2, 3, 4, 5) for sg in (False, True)] +
            [{'lbits': 4, 'signed': None}],
            fuc=[S + 'load_var_uint', S + 'load_var_int', S + 'load_coins'],
            descr='variable-length integers on an opaque slice: raises iff the length field or the len*8 value bits '
                  'are not all present; otherwise consumes exactly lbits + 8*len')
def read_var(w, lbits, signed):
    s, data, r, kids = _opaque_slice(w)
    op = (lambda: s.load_coins()) if signed is None else ((lambda: s.load_var_int(lbits)) if signed else (lambda: s.load_var_uint(lbits)))
    k, got = call(op)
    if k == 'raise':
        w.cover('raise')
        w.claim(f'exception is an API error ({type(got).__name__})', is_error(got))
        if w.symbolic:
            short_len = r < lbits
            if w.c.branch(w.Not(short_len).e if hasattr(w.Not(short_len), 'e') else w.Not(short_len)):
                head, _ = data.take_front(lbits)
                L = w.val(head)
                w.claim('raises only when value bits are missing', r < lbits + 8 * L)
            else:
                w.claim('raises only when the length field is missing', short_len)
        else:
            if r >= lbits:
                head, _ = data.take_front(lbits)
                w.claim('raises only when value bits are missing', r < lbits + 8 * head.value())
    else:
        w.cover('ok')
        w.claim('length field present', r >= lbits)
        head, rest = data.take_front(lbits)
        L = w.val(head)
        w.claim('value bits present', r >= lbits + 8 * L)
        Lc = L if type(L) is int else w.c.concretise(L.e, 'L')
        body, rest2 = rest.take_front(8 * Lc)
        v = w.val(body) if Lc else 0
        if signed and Lc:
            v = w.ite(v >= (1 << (8 * Lc - 1)), v - (1 << (8 * Lc)), v)
        w.claim('value of the next len*8 bits', got == v)
        w.claim('consumes exactly lbits + 8*len', w.eq_seq(bits_of(w, s), rest2))


@obligation('C07.read.refs', 'C07', cases=[{'q': q, 'off': off, 'op': op} for q in range(5) for off in range(q + 1)
                                           for op in ('ref', 'maybe')],
            fuc=[S + 'load_ref', S + 'load_maybe_ref'],
            descr='load_ref / load_maybe_ref with q refs of which off are consumed: raises iff none remain')
def read_refs(w, q, off, op):
    s, data, r, kids = _opaque_slice(w, q, off)
    if op == 'ref':
        k, got = call(s.load_ref)
        if k == 'raise':
            w.claim('raises only when no reference remains', off >= q)
            w.claim('exception is an API error', is_error(got))
        else:
            w.claim('returns the next reference', off < q and got is kids[off] and s.ref_offset == off + 1)
            w.claim('bits untouched', w.eq_seq(bits_of(w, s), data))
    else:
        k, got = call(s.load_maybe_ref)
        if k == 'raise':
            w.claim('exception is an API error', is_error(got))
            if w.symbolic:
                if w.c.branch((r >= 1).e if hasattr(r >= 1, 'e') else (r >= 1)):
                    head, _ = data.take_front(1)
                    w.claim('raises only when the flag is set and no reference remains', w.And(w.val(head) == 1, off >= q))
                else:
                    w.claim('raises only when the flag bit is missing', r < 1)
            elif r >= 1:
                w.claim('raises only when the flag is set and no reference remains', data.take_front(1)[0].value() == 1 and off >= q)
        else:
            w.claim('flag bit present', r >= 1)
            head, rest = data.take_front(1)
            flag = w.val(head)
            if got is None:
                w.claim('None only for flag 0', w.And(flag == 0, s.ref_offset == off))
            else:
                w.claim('reference only for flag 1', w.And(flag == 1, off < q and got is kids[off] and s.ref_offset == off + 1))
            w.claim('consumes the flag bit only', w.eq_seq(bits_of(w, s), rest))


# ---- P3 / P5 ---------------------------------------------------------------------------------------------------------

@obligation('C07.end_cell', 'C07', cases=[{'q': q} for q in range(5)],
            fuc=[B + 'end_cell', B + 'to_cell', B + 'to_slice', 'pytoniq_core.boc.cell.Cell.__init__', T + 'copy'],
            descr='a builder satisfying Inv (<=1023 bits, <=4 refs) ends in a cell/slice with exactly those bits and refs '
                  '(children abstract: any DAG below)')
def end_cell(w, q):
    from pytoniq_core.boc.tvm_bitarray import TvmBitarray
    p = w.int('p', 0, 1023)
    kids = [abstract_cell(w, f'k{i}') for i in range(q)]
    for kd in kids:
        w.assume(kd._depths[0] <= 1022)
    b, pre = mk_builder(w, p, kids)
    for nm in ('end_cell', 'to_cell', 'to_slice'):
        k, c = call(getattr(b, nm))
        w.claim(f'{nm} succeeds', k == 'ok')
        if k != 'ok':
            continue
        w.claim(f'{nm}: bits are the builder bits', w.eq_seq(bits_of(w, c), pre))
        w.claim(f'{nm}: at most 1023 bits and 4 refs', w.And(bits_of(w, c).length() <= 1023, len(c.refs) <= 4))
        w.claim(f'{nm}: refs are the builder refs, fresh list', same_objects(c.refs, kids) and c.refs is not b.refs)
        w.claim(f'{nm}: fresh capacity-checked bit array', c.bits is not b.bits and isinstance(c.bits, TvmBitarray))


ROUTES = ('begin_parse', 'to_slice', 'from_cell', 'copy', 'begin_parse+copy')


@obligation('C07.slice_routes', 'C07', cases=[{'route': r, 'plain': pl} for r in ROUTES for pl in (False, True)],
            fuc=['pytoniq_core.boc.cell.Cell.__init__', 'pytoniq_core.boc.cell.Cell.begin_parse',
                 'pytoniq_core.boc.cell.Cell.to_slice', S + 'from_cell', S + 'copy', 'pytoniq_core.boc.cell.Cell.copy'],
            descr='every route from a Cell to a Slice (cell built from a TvmBitarray or from a PLAIN bitarray of symbolic '
                  'length and content) yields a slice whose over-read raises: load_uint(n) with n > remaining')
def slice_routes(w, route, plain):
    import bitarray as _ba
    from pytoniq_core.boc.cell import Cell
    from pytoniq_core.boc.slice import Slice
    from pytoniq_core.boc.tvm_bitarray import TvmBitarray
    r = w.int('r', 0, 1023)
    data = w.bits('D', r)
    if plain:
        src = w.mk_bitarray(_ba.bitarray, data)
    else:
        src = w.mk_bitarray(TvmBitarray, data, 1023)
    c = Cell(src, [])
    if route == 'begin_parse':
        s = c.begin_parse()
    elif route == 'to_slice':
        s = c.to_slice()
    elif route == 'from_cell':
        s = Slice.from_cell(c)
    elif route == 'copy':
        s = c.copy().begin_parse()
    else:
        s = c.begin_parse().copy()
    w.claim('slice data equals the cell data', w.eq_seq(bits_of(w, s), data))
    n = w.choice('n', [1, 8, 10, 64])
    k, got = call(s.load_uint, n)
    if k == 'raise':
        w.claim('raises only on over-read', r < n)
        w.claim('exception is an API error', is_error(got))
    else:
        w.claim('over-read never returns data', r >= n)



@obligation('C07.depth_levels', 'C07', cases=[{'kind': k, 'mask': m, 'extra': x} for k, m in (('pruned', 1), ('pruned', 3), ('pruned', 2), ('plain', 1), ('plain', 5))
                                              for x in (0, 1)],
            fuc=['pytoniq_core.boc.cell.Cell.__init__', 'pytoniq_core.boc.cell.Cell.calculate_hashes', 'pytoniq_core.boc.builder.Builder.end_cell'],
            descr='the depth limit holds at EVERY level: an ordinary cell built by Builder.end_cell over a child of non-zero level (a pruned '
                  'branch recording symbolic depths, or any cell with per-level depths) plus 0/1 shallow siblings is refused IFF the depth '
                  'at some level would reach 1024 - in particular when only the LOWER-level depth (the recorded depth of the pruned subtree) '
                  'does; otherwise every get_depth(l) is below 1024')
def depth_levels(w, kind, mask, extra):
    from pytoniq_core.boc.builder import Builder
    from pytoniq_core.boc.cell import CellError
    from harness.common import abstract_child, abstract_cell
    from vf.spec import cell as SC
    child, obs = abstract_child(w, 'K', kind, mask)
    b = Builder().store_uint(5, 8).store_ref(child)
    if extra:
        sib = abstract_cell(w, 'sib')
        w.assume(sib._depths[0] <= 3)
        b.store_ref(sib)
    k, c = call(b.end_cell)
    too_deep = False
    for l in range(4):
        too_deep = w.Or(too_deep, obs.depth_at(l) + 1 >= 1024)
    if k == 'ok':
        w.cover('built')
        w.claim('built only if no level reaches depth 1024', w.Not(too_deep))
        for l in range(4):
            w.claim(f'get_depth({l}) < 1024', c.get_depth(l) < 1024)
    else:
        w.cover('refused')
        w.claim('refused only if some level would reach depth 1024', too_deep)
        w.claim('refused with CellError', isinstance(c, CellError))
