"""Shared pre-state builders and abstract views used by the contracts (world-agnostic)."""
from vf.bits import Seq

UNEXPECTED = (AttributeError, NameError, TypeError, UnboundLocalError, AssertionError, NotImplementedError,
              RecursionError, ZeroDivisionError)


class Child:
    """abstract child cell for operations that only move references around (identity matters, content does not)"""
    def __init__(self, i):
        self.i = i
        self.refs = []

    def __repr__(self):
        return f'<child {self.i}>'


def mk_builder(w, p_bits=None, refs=(), name='P'):
    """Builder whose data is an opaque prefix of (symbolic) length p and whose refs are the given objects"""
    from pytoniq_core.boc.builder import Builder
    from pytoniq_core.boc.tvm_bitarray import TvmBitarray
    b = Builder()
    pre = w.bits(name, p_bits) if p_bits is not None else Seq()
    b._bits = w.mk_bitarray(TvmBitarray, pre, 1023)
    b._refs = list(refs)
    return b, pre


def mk_slice(w, seq, refs=(), type_=-1, ref_offset=0):
    from pytoniq_core.boc.slice import Slice
    from pytoniq_core.boc.tvm_bitarray import TvmBitarray
    s = Slice(w.mk_bitarray(TvmBitarray, seq, 1023), list(refs), type_)
    s.ref_offset = ref_offset
    return s


def bits_of(w, obj):
    return w.seq_of(obj.bits)


def call(fn, *a, **k):
    """('ok', value) | ('raise', exc)"""
    try:
        return 'ok', fn(*a, **k)
    except Exception as e:       # noqa: the contract decides which exceptions are admissible
        return 'raise', e


def is_error(e):
    """an exception the API may use to refuse an operation (not a crash of a different nature)"""
    return not isinstance(e, UNEXPECTED)


def same_objects(xs, ys):
    return len(xs) == len(ys) and all(a is b for a, b in zip(xs, ys))


def check_store(w, b, pre, old_refs, outcome, enc, new_refs, bad_value, label=''):
    """contract of a store operation, two-sided:
         raises  iff  value not representable  or  |bits|+|enc| > 1023  or  |refs|+|new_refs| > 4
         else    bits' = bits ++ enc, refs' = refs ++ new_refs (same objects), returns the builder itself"""
    kind, val = outcome
    p = pre.length()
    n = enc.length() if enc is not None else 0
    raise_cond = w.Or(bad_value, p + n > 1023, len(old_refs) + len(new_refs) > 4)
    if kind == 'raise':
        w.cover(label + 'raise')
        w.claim(label + 'raises only if unrepresentable or over capacity', raise_cond)
        w.claim(label + f'exception is an API error ({type(val).__name__})', is_error(val))
    else:
        w.cover(label + 'ok')
        w.claim(label + 'never refused when it fits', w.Not(raise_cond))
        w.claim(label + 'bits == old ++ enc', w.eq_seq(bits_of(w, b), pre + enc))
        w.claim(label + 'refs == old ++ new', same_objects(b.refs, list(old_refs) + list(new_refs)))
        w.claim(label + 'returns self', val is b)
        w.claim(label + 'capacity invariant', w.And(w.seq_of(b.bits).length() <= 1023, len(b.refs) <= 4))


def abstract_cell(w, name, mask=0, type_=-1, nbits=None, nrefs=0):
    """A cell of which only the class invariant is known: symbolic per-level hashes and depths, given level mask.
    It is a REAL Cell instance (created without running __init__), so the repository's own get_hash/get_depth/
    __eq__/__hash__ run on it; only the cached fields are symbolic."""
    from pytoniq_core.boc.cell import Cell
    from pytoniq_core.boc.exotic import LevelMask
    from pytoniq_core.boc.tvm_bitarray import TvmBitarray
    c = Cell.__new__(Cell)
    n = w.int(f'{name}.nbits', 0, 1023) if nbits is None else nbits
    c.bits = w.mk_bitarray(TvmBitarray, w.bits(f'{name}.bits', n), 1023)
    c.refs = [Child(f'{name}.r{i}') for i in range(nrefs)]
    c.type_ = type_
    c.is_exotic = type_ != -1
    c.level_mask = LevelMask(mask)
    nh = 1 if type_ == 1 else bin(mask).count('1') + 1
    c._hashes = [w.bytes(f'{name}.hash{i}', 32) for i in range(nh)]
    c._depths = [w.int(f'{name}.depth{i}', 0, 1023) for i in range(nh)]
    c._hash = c._hashes[-1]
    c._descriptors = None
    c._data_bytes = None
    return c


def abstract_child(w, name, kind='plain', mask=0, stored=None):
    """abstract child cell + its specification-side observation (vf.spec.cell.Obs).
    kind 'plain': any non-pruned cell with level mask `mask` (popcount(mask)+1 symbolic hashes/depths);
    kind 'pruned': a pruned-branch cell of mask `mask` >= 1 whose data carries symbolic stored hashes/depths."""
    from vf.spec import cell as SC, enc as E
    from pytoniq_core.boc.cell import Cell
    from pytoniq_core.boc.exotic import LevelMask
    from pytoniq_core.boc.tvm_bitarray import TvmBitarray
    if kind == 'plain':
        c = abstract_cell(w, name, mask=mask)
        obs = SC.observe(w, SC.ORDINARY, mask, c._hashes, c._depths, None)
        return c, obs
    k = SC.popcount(mask)
    data = E.lit('00000001') + E.uint(mask, 8)
    stored_h = [w.bytes(f'{name}.stored_hash{i}', 32) for i in range(k)]
    stored_d = [w.int(f'{name}.stored_depth{i}', 0, 65535) for i in range(k)]
    for i, (h, d) in (stored or {}).items():        # stored slot i carries a given hash/depth (e.g. of a removed subtree)
        stored_h[i], stored_d[i] = h, d
    for h in stored_h:
        data = data + w.bytes_seq(h)
    for d in stored_d:
        data = data + E.uint(d, 16)
    c = Cell.__new__(Cell)
    c.bits = w.mk_bitarray(TvmBitarray, data, 1023)
    c.refs = []
    c.type_ = 1
    c.is_exotic = True
    c.level_mask = LevelMask(mask)
    c._hashes = [w.bytes(f'{name}.hash', 32)]
    c._depths = [0]
    c._hash = c._hashes[-1]
    c._descriptors = None
    c._data_bytes = SC._as_bytes(w, data)
    obs = SC.observe(w, SC.PRUNED, mask, c._hashes, c._depths, data)
    return c, obs


def no_verdict(w, why):
    """the code under contract changed SHAPE in a way a fragment-based (loop cut) obligation cannot follow: no verdict from this
    obligation - symbolically UNDECIDED (other obligations and the native stand-ins decide), natively the sample is skipped.  Never
    a claim: a harmless refactoring must not raise an alarm."""
    from vf.sym import Unsupported
    from vf.engine import Skip
    if not w.symbolic:
        raise Skip()
    raise Unsupported('fragment shape: ' + why)
