"""C05 — the BoC parser agrees with the format on foreign input and rejects corruption.

Foreign encodings are produced by the SPECIFICATION encoder (vf/spec/boc.py) with every encoder freedom as a case split
(magic, size, off_bytes, index, cache bits, CRC, number of roots) and SYMBOLIC field values / opaque cell data of symbolic
length; the real parser must return exactly the encoded fields.  Rejection: any surplus or missing bytes, a CRC trailer
that is not crc32c(prefix), backward / self / dangling references.  crc32c enters through its contract (C18) plus the
bit-vector lemmas that make every single-bit error detectable.
"""
import importlib
import os
from vf.engine import obligation
from vf.spec import boc as SB, cell as SC, enc as E, crc as SCRC
from vf.bits import Seq
from harness.common import call, is_error, same_objects, abstract_child, bits_of

D = 'pytoniq_core.boc.deserialize.Boc.'
CRCASSUME = 'crc32c used through its contract (proved in C18): a deterministic function of the byte string'
FLAGSETS = [(False, False, False), (False, True, False), (True, False, False), (True, True, False), (True, False, True), (True, True, True)]
OFFS_Q = (1, 2, 3, 8)


def _hdr_cases():
    out = []
    thorough = True
    for size in (1, 2, 3, 4):
        for off in range(1, 9):
            tier_q = off in OFFS_Q
            for fi, fl in enumerate(FLAGSETS):
                out.append({'kind': 'generic', 'size': size, 'off': off, 'fl': fi, 'q': tier_q})
            for kind in ('idx', 'idx_crc'):
                out.append({'kind': kind, 'size': size, 'off': off, 'fl': 0, 'q': tier_q})
    return out


def _crc_stub(w):
    def crc(data, *a):
        return w.uf('crc32c', w.bytes_seq(data))
    return crc


def _nbytes(w, seq):
    n = seq.length()
    if isinstance(n, int):
        return n // 8
    from vf.sym import mk_int
    return mk_int(n / 8)


def _as_bytes(w, seq):
    from vf.bits import SymBytes
    if w.symbolic:
        return SymBytes.make(seq)
    n = seq.length()
    return seq.value().to_bytes(n // 8, 'big') if n else b''


def _build(w, kind, size, off, fl, cells=None):
    """a spec-valid encoding with symbolic field values; returns dict of parts"""
    has_idx, has_crc, has_cache = FLAGSETS[fl] if kind == 'generic' else (True, kind == 'idx_crc', False)
    ncells = w.choice('ncells', [1, 3]) if cells is None else cells
    nroots = w.choice('nroots', [1, 2]) if kind == 'generic' else 1
    absent = w.int('absent', 0, (1 << (8 * size)) - 1)
    tot = w.int('tot', 2 * ncells, min((1 << (8 * off)) - 1, 1 << 20))      # every cell has two descriptor bytes
    root_list = [w.int(f'root{i}', 0, (1 << (8 * size)) - 1) for i in range(nroots)]
    idx = [w.int(f'idx{i}', 0, (1 << (8 * off)) - 1) for i in range(ncells)] if has_idx else None
    payload = w.bits('payload', 8 * tot)
    s = SB.header(kind, size, off, ncells, nroots, absent, tot, root_list, has_idx, has_crc, has_cache)
    if has_idx:
        for v in idx:
            s = s + E.uint(v, 8 * off)
    s = s + payload
    return dict(seq=s, has_idx=has_idx, has_crc=has_crc, has_cache=has_cache, ncells=ncells, nroots=nroots, absent=absent,
                tot=tot, root_list=root_list if kind == 'generic' else [0], idx=idx, payload=payload)


def _check_fields(w, r, p, size, off):
    w.claim('size_bytes', r['size_bytes'] == size)
    w.claim('offset_bytes', r['offset_bytes'] == off)
    w.claim('cells_num', r['cells_num'] == p['ncells'])
    w.claim('roots_num', r['roots_num'] == p['nroots'])
    w.claim('absent_num', r['absent_num'] == p['absent'])
    w.claim('tot_cells_size', r['tot_cells_size'] == p['tot'])
    w.claim('root_list', len(r['root_list']) == len(p['root_list']) and w.And(*[a == b for a, b in zip(r['root_list'], p['root_list'])]))
    w.claim('has_idx / hash_crc32 / has_cache_bits', bool(r['has_idx']) == p['has_idx'] and bool(r['hash_crc32']) == p['has_crc']
            and bool(r['has_cache_bits']) == p['has_cache'])
    if p['has_idx']:
        w.claim('index entries', len(r['index']) == p['ncells'] and w.And(*[a == b for a, b in zip(r['index'], p['idx'])]))
    w.claim('cells_data is exactly the cell data', w.eq_seq(w.bytes_seq(r['cells_data']), p['payload']))


@obligation('C05.header', 'C05', cases=[{k: v for k, v in c.items() if k != 'q'} for c in _hdr_cases() if c['q']],
            fuc=[D + 'deserialize_boc_header', 'pytoniq_core.boc.utils.bytes_to_uint'], assumes=[CRCASSUME],
            descr='every header a conforming encoder can write — three magics x size 1..4 x off_bytes (quick: 1,2,3,8; thorough: 1..8) '
                  'x index/CRC/cache-bit combinations x 1 or 2 roots x 1 or 3 cells, all count fields and index entries SYMBOLIC over '
                  'their full width, opaque cell data of symbolic length, correct CRC: deserialize_boc_header returns exactly the '
                  'encoded fields, the root list the encoding denotes (legacy magics: root 0) and the cell data')
def header(w, kind, size, off, fl):
    M = importlib.import_module('pytoniq_core.boc.deserialize')
    p = _build(w, kind, size, off, fl)
    s = p['seq']
    if p['has_crc']:
        s = s + w.bytes_seq(w.uf('crc32c', s))
    with w.stub(M, 'crc32c', _crc_stub(w)):
        k, r = call(M.Boc.deserialize_boc_header, _as_bytes(w, s))
    w.claim(f'a well-formed encoding is accepted ({type(r).__name__ if k != "ok" else ""}: {r if k != "ok" else ""})', k == 'ok')
    if k == 'ok':
        _check_fields(w, r, p, size, off)


@obligation('C05.header.full', 'C05', cases=[{k: v for k, v in c.items() if k != 'q'} for c in _hdr_cases() if not c['q']],
            tier='thorough', fuc=[D + 'deserialize_boc_header'], assumes=[CRCASSUME], descr='thorough tier: C05.header for off_bytes 4..7')
def header_full(w, kind, size, off, fl):
    header(w, kind, size, off, fl)


@obligation('C05.length_and_crc', 'C05',
            cases=[{'kind': 'generic', 'size': s, 'off': o, 'fl': f, 'how': h} for s, o in ((1, 1), (2, 2), (4, 3))
                   for f in range(len(FLAGSETS)) for h in ('extended', 'truncated', 'crc')] +
                  [{'kind': k, 'size': 1, 'off': 2, 'fl': 0, 'how': h} for k in ('idx', 'idx_crc') for h in ('extended', 'truncated', 'crc')],
            fuc=[D + 'deserialize_boc_header'], assumes=[CRCASSUME],
            descr='acceptance implies exact length and a matching CRC: a well-formed encoding EXTENDED by e >= 1 arbitrary bytes, or '
                  'TRUNCATED by d >= 1 bytes (anywhere down to the empty string), raises; with the CRC flag and an ARBITRARY 4-byte '
                  'trailer the header is accepted iff trailer == crc32c(everything before)')
def length_and_crc(w, kind, size, off, fl, how):
    M = importlib.import_module('pytoniq_core.boc.deserialize')
    p = _build(w, kind, size, off, fl, cells=1)
    s = p['seq']
    good_crc = w.bytes_seq(w.uf('crc32c', s)) if p['has_crc'] else None
    if how == 'crc':
        if not p['has_crc']:
            w.claim('no CRC in this format variant', True)
            return
        trailer = w.bits('trailer', 32)
        full = s + trailer
    else:
        full = s + (good_crc if p['has_crc'] else Seq())
        if how == 'extended':
            e = w.int('e', 1, 64)
            full = full + w.bits('extra', 8 * e)
        else:
            # cut d >= 1 bytes off the end: lengths are concretised per region (header / data / trailer)
            w.assume(p['tot'] <= 4)
            if w.symbolic:
                full.fix_lengths()
            total = full.length() // 8
            d = w.choice('cut', list(range(1, total + 1)))
            full, _ = full.take_front(8 * (total - d))
    with w.stub(M, 'crc32c', _crc_stub(w)):
        k, r = call(M.Boc.deserialize_boc_header, _as_bytes(w, full))
    if how == 'crc':
        ok = w.eq_seq(trailer, good_crc)
        if k == 'ok':
            w.cover('accepted')
            w.claim('accepted only when the trailer is crc32c(prefix)', ok)
        else:
            w.cover('rejected')
            w.claim('rejected only when the trailer differs', w.Not(ok))
            w.claim('rejection is an error', is_error(r) or isinstance(r, (IndexError,)))
    else:
        w.claim(f'{how} input is rejected', k == 'raise')


@obligation('C05.crc.single_bit', 'C05', fuc=['pytoniq_core.crypto.crc.crc32c'],
            descr='lemmas (bit-vector theory) on the CRC-32C byte step that C18 proves the real loop equal to: (1) step(s1^s2, b1^b2) == '
                  'step(s1,b1) ^ step(s2,b2) [linearity]; (2) step(0,b) == 0 => b == 0; (3) step(s,0) == 0 => s == 0.  Hence two '
                  'equal-length messages that differ in exactly one bit have different CRC-32C, whatever their length (the difference '
                  'register becomes non-zero at the flipped byte and stays non-zero)')
def crc_single_bit(w):
    if not w.symbolic:
        n = w.int('n', 1, 60)
        a = w.bytes('a', n)
        i = w.int('i', 0, 8 * n - 1)
        from pytoniq_core.crypto.crc import crc32c
        b = bytearray(a)
        b[i // 8] ^= 1 << (i % 8)
        w.claim('single-bit flip changes crc32c', crc32c(a) != crc32c(bytes(b)))
        return
    import z3
    s1, s2, b1, b2 = z3.BitVecs('s1 s2 b1 b2', 32)
    pre = z3.And(z3.ULT(b1, 256), z3.ULT(b2, 256))

    def st(crc, byte):
        crc = crc ^ byte
        for _ in range(8):
            crc = z3.LShR(crc, 1) ^ ((z3.BitVecVal(0, 32) - (crc & 1)) & 0x82F63B78)
        return crc
    w.claim('mask form == the bitwise definition of C18', z3.Implies(z3.ULT(b1, 256), st(s1, b1) == SCRC.bv_crc32c_step(z3, s1, b1)))
    w.claim('linearity', z3.Implies(pre, st(s1 ^ s2, b1 ^ b2) == st(s1, b1) ^ st(s2, b2)))
    w.claim('a non-zero byte difference enters the register', z3.Implies(z3.And(z3.ULT(b1, 256), st(z3.BitVecVal(0, 32), b1) == 0), b1 == 0))
    w.claim('a non-zero register difference stays non-zero', z3.Implies(st(s1, z3.BitVecVal(0, 32)) == 0, s1 == 0))


def _cell_enc(w, r, exotic_type, level, with_hashes, size, m8):
    q = w.int('q', 0 if exotic_type is None else 1, 127)
    b = 8 * q + m8
    w.assume(b <= 1023)
    if exotic_type is None:
        bits = w.bits('D', b)
    else:
        bits = E.int_(exotic_type, 8) + w.bits('D', b - 8)
    d1 = r + (8 if exotic_type is not None else 0) + (16 if with_hashes else 0) + 32 * level
    s = E.uint(d1, 8) + E.uint(SC.d2(b), 8)
    if with_hashes:
        s = s + w.bits('stored_hashes', 8 * 34 * (level + 1))
    s = s + SC.pad(bits, m8)
    refs = [w.int(f'ref{i}', 0, (1 << (8 * size)) - 1) for i in range(r)]
    for x in refs:
        s = s + E.uint(x, 8 * size)
    return s, bits, b, refs


@obligation('C05.cell', 'C05', cases=[{'r': r, 'ex': ex, 'lvl': lv, 'hashes': h, 'size': sz, 'm8': m8}
                                      for r in (0, 2, 4) for ex in (None, 1, 3, -1) for lv, h in ((0, False), (0, True), (2, True), (3, False))
                                      for sz in (1, 3) for m8 in (0, 1, 7)],
            fuc=[D + 'deserialize_cell'],
            descr='deserialize_cell on the specification encoding of a cell (r references, ordinary or exotic with the type byte as '
                  'SIGNED int8, any level, with or without stored hashes/depths, data of every length 8q+m8 with completion tag, '
                  'symbolic reference indexes of `size` bytes) followed by arbitrary bytes: returns the data bits, the type, the '
                  'reference indexes and the number of bytes consumed')
def cell(w, r, ex, lvl, hashes, size, m8):
    M = importlib.import_module('pytoniq_core.boc.deserialize')
    s, bits, b, refs = _cell_enc(w, r, ex, lvl, hashes, size, m8)
    rest = w.bits('rest', 8 * w.int('nrest', 0, 50))
    k, out = call(M.Boc.deserialize_cell, _as_bytes(w, s + rest), size)
    w.claim(f'accepted ({out if k != "ok" else ""})', k == 'ok')
    if k != 'ok':
        return
    c, used = out
    w.claim('data bits', w.eq_seq(w.seq_of(c['bits']), bits))
    w.claim('type', c['type'] == (ex if ex is not None else -1))
    w.claim('reference indexes', len(c['refs']) == r and w.And(*[a == x for a, x in zip(c['refs'], refs)]))
    w.claim('consumed exactly the cell', used == _nbytes(w, s))
    from pytoniq_core.boc.tvm_bitarray import TvmBitarray
    w.claim('bits are capacity-checked', isinstance(c['bits'], TvmBitarray))


@obligation('C05.cell.reject', 'C05', cases=[{'what': x} for x in ('absent', 'short', 'exotic_short')], fuc=[D + 'deserialize_cell'],
            descr='absent cells (d1 = 7 refs + hashes flag), a buffer shorter than the descriptors announce, and exotic cells with fewer '
                  'than 8 data bits are rejected with an error')
def cell_reject(w, what):
    M = importlib.import_module('pytoniq_core.boc.deserialize')
    if what == 'absent':
        data = E.uint(7 + 16 + 32 * w.int('lvl', 0, 3) + 8 * w.int('ex', 0, 1), 8) + w.bits('tail', 8 * 40)
    elif what == 'short':
        s, bits, b, refs = _cell_enc(w, 2, None, 0, False, 2, 0)
        w.assume(b >= 8)
        n = s.length()
        nb = n // 8 if isinstance(n, int) else None
        if nb is None:
            s.fix_lengths()
            nb = s.length() // 8
        cutn = w.choice('cut', [1, 2, 3, nb - 2])
        data, _ = s.take_front(8 * (nb - cutn))
    else:
        data = E.uint(8 + w.int('r', 0, 4), 8) + E.uint(1, 8) + E.uint(w.int('b', 0, 127) * 2 + 1, 8) + w.bits('tail', 80)
    k, out = call(M.Boc.deserialize_cell, _as_bytes(w, data), 2 if what == 'short' else 1)
    w.claim('rejected', k == 'raise')
    w.claim(f'with an error ({type(out).__name__})', k == 'raise' and (is_error(out) or isinstance(out, IndexError)))


@obligation('C05.refs', 'C05', cases=[{'n': 2}, {'n': 3}], fuc=[D + 'deserialize', D + 'deserialize_cell', D + 'deserialize_boc_header'],
            assumes=[CRCASSUME],
            descr='graph rebuild: n cells whose reference indexes are SYMBOLIC (any value 0..255): Boc.deserialize returns cells only '
                  'when every reference points to a LATER existing cell; backward, self and dangling references raise; when it '
                  'returns, the root is cell root_list[0] with children rebuilt from the referenced cells')
def refs(w, n):
    M = importlib.import_module('pytoniq_core.boc.deserialize')
    from pytoniq_core.boc.cell import Cell
    cells = []
    rr = []
    for i in range(n):
        nref = 1 if i < n - 1 else w.choice('last_refs', [0, 1])
        r = [w.int(f'c{i}.ref{j}', 0, 255) for j in range(nref)]
        rr.append(r)
        d = w.bits(f'c{i}.D', 16)
        s = E.uint(nref, 8) + E.uint(4, 8) + d
        for x in r:
            s = s + E.uint(x, 8)
        cells.append((s, d))
    payload = Seq()
    for s, _ in cells:
        payload = payload + s
    tot = payload.length() // 8
    hdr = SB.header('generic', 1, 1, n, 1, 0, tot, [0], False, False, False)
    boc = M.Boc(_as_bytes(w, hdr + payload))
    k, out = call(boc.deserialize, Cell)
    valid = w.And(*[w.And(x > i, x < n) for i, r in enumerate(rr) for x in r])
    if k == 'ok':
        w.cover('ok')
        w.claim('cells are returned only for forward, existing references', valid)
        w.claim('one root', len(out) == 1)
        w.claim('root data', w.eq_seq(bits_of(w, out[0]), cells[0][1]))
    else:
        w.cover('raise')
        w.claim('a valid graph is not rejected', w.Not(valid))


# ---- bounded native: every encoder freedom, all corruptions ---------------------------------------------------------------------

def _rand_dag(rng, n):
    g = {}
    for i in range(n):
        later = list(range(i + 1, n))
        g[i] = [rng.choice(later) for _ in range(rng.randrange(0, min(4, len(later)) + 1))] if later else []
    for j in range(1, n):
        if not any(j in g[i] for i in range(j)):
            p = rng.randrange(0, j)
            if len(g[p]) < 4:
                g[p].append(j)
            else:
                g[p][0] = j
    return g


def _lib_struct(c):
    return (c.bits.to01(), c.type_ != -1, tuple(_lib_struct(r) for r in c.refs))


@obligation('C05.foreign', 'C05', kind='bounded', samples=120,
            fuc=[D + 'deserialize', D + 'deserialize_boc_header', D + 'deserialize_cell', 'pytoniq_core.boc.cell.Cell.from_boc'],
            descr='bounded, native: random DAGs (1..12 cells, unaligned data, several roots, stored hashes) encoded by the specification '
                  'encoder with random admissible widths / index / cache bits / CRC / magic: the parser returns exactly the denoted '
                  'roots; then EVERY single-bit flip (CRC-protected encodings), every truncation, extensions by 1..4 bytes and every '
                  'rewrite of one reference index must raise or (for flips that stay well-formed, non-CRC) decode as the strict '
                  'decoder does')
def foreign(w):
    from pytoniq_core.boc.cell import Cell
    rng = w.rng
    n = rng.randrange(1, 13)
    g = _rand_dag(rng, n)
    cells = []
    for i in range(n):
        b = rng.choice([0, 1, 7, 8, 9, 16, 31, 1016, 1017, 1023, rng.randrange(0, 200)])
        cells.append((''.join(rng.choice('01') for _ in range(b)), g[i], False, 0))
    kind = rng.choice(['generic', 'generic', 'generic', 'idx', 'idx_crc'])
    size = rng.randrange(max(1, (n.bit_length() + 7) // 8), 5)
    roots = (0,) if kind != 'generic' or rng.random() < 0.6 else tuple([0] + [rng.randrange(n) for _ in range(rng.randrange(1, 3))])[:n]
    has_idx = rng.random() < 0.5
    has_cache = has_idx and rng.random() < 0.5
    has_crc = rng.random() < 0.5
    stored = {i: bytes(rng.getrandbits(8) for _ in range(34)) for i in range(n) if rng.random() < 0.15}
    data0 = SB.encode(cells, roots, kind, size, None, has_idx, has_crc, has_cache, [rng.randrange(2) for _ in range(n)], stored)
    minoff = data0[5]
    off = rng.randrange(minoff, 9)
    data = SB.encode(cells, roots, kind, size, off, has_idx, has_crc, has_cache, [rng.randrange(2) for _ in range(n)], stored)
    w.used.update(kind=kind, size=size, off=off, idx=has_idx, cache=has_cache, crc=has_crc, n=n, boc=data.hex()[:200])
    want = [c.struct() for c in SB.decode(data, unique=False)]
    k, got = call(Cell.from_boc, data)
    w.claim(f'a well-formed foreign encoding is accepted ({got if k != "ok" else ""})', k == 'ok')
    if k != 'ok':
        return
    w.claim('the roots are the ones the encoding denotes', [_lib_struct(c) for c in got] == want)
    protected = (kind == 'generic' and has_crc) or kind == 'idx_crc'
    for cut in range(1, min(len(data), 40) + 1):
        kk, _ = call(Cell.from_boc, data[:-cut])
        if kk == 'ok':
            w.claim(f'truncation by {cut} bytes must be rejected', False)
            return
    for ext in (b'\x00', b'\xff\x00', b'\x00\x00\x00\x00'):
        kk, _ = call(Cell.from_boc, data + ext)
        if kk == 'ok':
            w.claim(f'extension by {ext.hex()} must be rejected', False)
            return
    if protected:
        for bit in range(8 * len(data)):
            mut = bytearray(data)
            mut[bit // 8] ^= 1 << (bit % 8)
            kk, res = call(Cell.from_boc, bytes(mut))
            if kk == 'ok':
                w.claim(f'single-bit corruption (bit {bit}) of a CRC-protected encoding must be rejected', False)
                return
    w.claim('all corruptions rejected', True)
