"""C15 — messages, state-inits and currency values serialise per block.tlb and round-trip.

* room: MessageAny.serialize for every header kind x header size profile x state-init shape (absent / all 32 field combinations)
  x body reference count 0..4 with a body of SYMBOLIC bit length 0..1023: never fails for lack of room whenever an encoding of
  the message exists, and the produced cell is one of the valid block.tlb encodings of the same logical message
  (init inline|by reference, body inline|by reference) - the Either flags agree with where the parts are.
* parse: MessageAny.deserialize returns the same message from EVERY valid encoding (all four Either combinations, three headers),
  encodings generated from the schema text.
* wrappers: for the stand-alone types, deserialize agrees with the schema encoding field by field and serialize(deserialize(e))
  is again the schema encoding e (so serialize emits exactly the schema encoding of the value, and the pair round-trips).
"""
import importlib
from vf.engine import obligation
from vf.spec import tlb as T, enc as E
from vf.spec.vmstack import Node, Raw, matches
from vf.bits import Seq
from harness import tlbcheck as TC
from harness.common import call, is_error, bits_of, abstract_cell

TR, AC, BL, UT = 'pytoniq_core.tlb.transaction', 'pytoniq_core.tlb.account', 'pytoniq_core.tlb.block', 'pytoniq_core.tlb.utils'
WL, NF = 'pytoniq_core.tlb.custom.wallet', 'pytoniq_core.tlb.custom.nft'


def _lib_obj(w, tname, targs, mod, cls, own, prof, rot, minimal=True, top_bit=False, general=None):
    """(library object, encoding CellBuf, schema value): the object comes from the library's own parser run on the schema
    encoding; the field-by-field agreement is claimed here as well (it is C16's obligation for the same function)"""
    pol = T.Policy(own=dict(own), prof=prof, rot=rot)
    pol.minimal = minimal
    pol.general = general        # index of the one var-integer field left fully general when top_bit is on
    pol.top_bit = top_bit        # amounts with their top bit set: one bit_length class per byte length (fewer paths); only
                                 # where the VALUES are not the subject (room obligation: sizes matter)
    cur, v, g = T.generate(w, tname, targs, pol, cell_factory=lambda p: TC.leaf_cell(w, 'c:' + p))
    M = importlib.import_module(mod)
    cell = TC.build(w, cur.node())
    s = cell.begin_parse()
    k, obj = call(getattr(M, cls).deserialize, s)
    w.claim(f'{cls}.deserialize accepts the schema encoding ({obj if k != "ok" else ""})', k == 'ok')
    if k != 'ok':
        return None, cur, v
    cx = TC.Ctx(w)
    TC.agree(cx, obj, v, cls)
    cx.flush()
    return obj, cur, v


def _light_cell(w):
    """callee contract of Cell(bits, refs, type_) as used by Builder.end_cell (proved in C01/C07): a cell holding exactly these
    bits and references; its hash is an uninterpreted fresh value here (hashing is not this property's subject and its
    padding arithmetic over a symbolic body length only multiplies paths)"""
    from pytoniq_core.boc.cell import Cell
    from pytoniq_core.boc.exotic import LevelMask
    n = [0]

    def mk(bits, refs, type_=-1):
        c = Cell.__new__(Cell)
        c.bits, c.refs, c.type_, c.is_exotic = bits, refs, type_, type_ != -1
        c.level_mask = LevelMask(0)
        n[0] += 1
        c._hashes = [w.bytes(f'lighthash{n[0]}', 32)]
        c._depths = [0]
        c._hash = c._hashes[-1]
        c._descriptors = None
        c._data_bytes = None
        return c
    return mk


# ---- header / state-init shapes ---------------------------------------------------------------------------------------
HEADERS = []
for _ci, _kind in enumerate(['int', 'ext_in', 'ext_out']):
    for _prof, _rot, _tag in ((0, 0, 'min'), (1, 15, 'max'), (1, 7, 'mid')):
        if _kind != 'int' and _tag == 'mid':
            continue
        HEADERS.append({'hk': _kind, 'hp': _tag, '_own': {'CommonMsgInfo!CommonMsgInfo': _ci}, '_prof': _prof, '_rot': _rot})
# the internal header additionally with extra currencies but small amounts (one reference, few bits)
HEADERS.append({'hk': 'int', 'hp': 'xc', '_own': {'CommonMsgInfo!CommonMsgInfo': 0, 'CommonMsgInfo.value.other.dict#': 1}, '_prof': 0, '_rot': 1})

INITS = [None] + [tuple((m >> i) & 1 for i in range(5)) for m in range(32)]


def _init_own(bits):
    names = ['split_depth?', 'special?', 'code?', 'data?', 'library?']
    return {f'StateInit.{n}': b for n, b in zip(names, bits)}


ROOM_CASES = [{'h': hi, 'init': ii, 'brefs': br} for hi in range(len(HEADERS)) for ii in range(len(INITS)) for br in range(5)]


def _room_label(c):
    h = HEADERS[c['h']]
    return f"{h['hk']}/{h['hp']} init={'-' if INITS[c['init']] is None else ''.join(map(str, INITS[c['init']]))} body_refs={c['brefs']}"


@obligation('C15.room', 'C15', cases=[dict(c, shape=_room_label(c)) for c in ROOM_CASES],
            fuc=[TR + '.MessageAny.serialize', TR + '.InternalMsgInfo.serialize', TR + '.ExternalMsgInfo.serialize',
                 TR + '.ExternalOutMsgInfo.serialize', AC + '.StateInit.serialize', AC + '.TickTock.serialize',
                 BL + '.CurrencyCollection.serialize', BL + '.ExtraCurrencyCollection.serialize'],
            descr='MessageAny.serialize: for every header kind and size profile (minimal, maximal incl. anycast and 15-byte amounts, '
                  'with extra currencies), every state-init shape (absent, all 32 field combinations, 0..3 references), every body '
                  'reference count 0..4 and a body of SYMBOLIC length 0..1023 bits: does not raise whenever the flags fit after the '
                  'header; the result is one of the valid encodings {init inline|ref} x {body inline|ref} of the same message, within '
                  'cell capacity',
            budget={'seconds': 300, 'paths': 3000})
def room(w, h, init, brefs, shape):
    M = importlib.import_module(TR)
    hd = HEADERS[h]
    info, icur, iv = _lib_obj(w, 'CommonMsgInfo', (), TR, 'CommonMsgInfo', hd['_own'], hd['_prof'], hd['_rot'], top_bit=True)
    if info is None:
        return
    sobj, scur = None, None
    if INITS[init] is not None:
        sobj, scur, sv = _lib_obj(w, 'StateInit', (), AC, 'StateInit', _init_own(INITS[init]), 0, 0)
        if sobj is None:
            return
    body = abstract_cell(w, 'body')
    body.refs = [TC.leaf_cell(w, f'body.r{i}') for i in range(brefs)]
    body._depths = [0]
    bbits = w.seq_of(body.bits)
    msg = M.MessageAny(info=info, init=sobj, body=body)
    with w.stub('pytoniq_core.boc.builder', 'Cell', _light_cell(w)):
        k, cell = call(msg.serialize)
    hb = icur.bits.length()
    flags = 3 if sobj is not None else 2
    exists = hb + flags <= 1023
    if not exists:
        w.claim('no encoding exists (the flags do not fit after the header): refusing is admissible', k != 'ok' or True)
        return
    w.claim(f'serialising does not fail for lack of room ({type(cell).__name__ + ": " + str(cell) if k != "ok" else ""})', k == 'ok')
    if k != 'ok':
        return
    # decode the produced cell under the schema: info ++ Maybe(Either StateInit ^StateInit) ++ Either(X ^X)
    rs = w.seq_of(cell.bits)
    refs = list(cell.refs)
    w.claim('within cell capacity', w.And(rs.length() <= 1023, len(refs) <= 4))
    head, rest = rs.take_front(hb)
    w.claim('starts with the header encoding', w.eq_seq(head, icur.bits))
    w.claim('header references first', len(refs) >= len(icur.refs) and w.And(*[matches(w, a, b) for a, b in zip(refs, icur.refs)]))
    refs = refs[len(icur.refs):]

    def cbit(sq):
        sg = sq.segs
        return sg[0].v if len(sg) == 1 and type(sg[0].v) is int else None
    mb, rest = rest.take_front(1)
    w.claim('init:(Maybe ...) flag says whether a state-init is present', cbit(mb) == (1 if sobj is not None else 0))
    if sobj is not None and cbit(mb) == 1:
        eb, rest = rest.take_front(1)
        if cbit(eb) == 0:
            w.cover('init inline')
            ib, rest = rest.take_front(scur.bits.length())
            w.claim('Either left: the state-init encoding follows inline', w.eq_seq(ib, scur.bits))
            w.claim('Either left: its references follow', len(refs) >= len(scur.refs) and
                    w.And(*[matches(w, a, b) for a, b in zip(refs, scur.refs)]))
            refs = refs[len(scur.refs):]
        elif cbit(eb) == 1:
            w.cover('init by reference')
            w.claim('Either right: the next reference holds the state-init encoding', len(refs) >= 1 and matches(w, refs[0], scur.node()))
            refs = refs[1:]
        else:
            w.claim('Either flag of init is a definite bit', False)
    bb, rest = rest.take_front(1)
    if cbit(bb) == 0:
        w.cover('body inline')
        w.claim('Either left: the body bits follow inline and end the cell', w.eq_seq(rest, bbits))
        w.claim('Either left: the body references end the cell', len(refs) == len(body.refs) and all(a is b for a, b in zip(refs, body.refs)))
    elif cbit(bb) == 1:
        w.cover('body by reference')
        w.claim('Either right: nothing follows the flag', rest.length() == 0)
        w.claim('Either right: the last reference is the body cell', len(refs) == 1 and refs[0] is body)
    else:
        w.claim('Either flag of the body is a definite bit', False)
    # the library's own parser returns the same message from its own serialisation
    k2, back = call(M.MessageAny.deserialize, cell.begin_parse())
    w.claim(f'the serialised message parses back ({back if k2 != "ok" else ""})', k2 == 'ok')
    if k2 == 'ok':
        cx = TC.Ctx(w)
        TC.agree(cx, back.info, iv, 'back.info')
        if sobj is not None:
            TC.agree(cx, back.init, sv, 'back.init')
        else:
            cx.claim('back.init absent', back.init is None)
        cx.claim('back.body: same bits and references', hasattr(back.body, 'bits') and w.And(
            w.eq_seq(w.seq_of(back.body.bits), bbits), len(back.body.refs) == len(body.refs) and all(a is b for a, b in zip(back.body.refs, body.refs))))
        cx.flush()


# ---- parse: every valid encoding ------------------------------------------------------------------------------------------
_MSG_ARGS = (('id', 'Any'),)
_MSG_CASES = None


def msg_cases():
    global _MSG_CASES
    if _MSG_CASES is None:
        own = T.own_cases('Message', _MSG_ARGS, cap=80)
        out = []
        for i, o in enumerate(own):
            for prof, rot in ((0, 0), (1, 3), (1, 15)):
                if T.fits('Message', _MSG_ARGS, o, prof, rot):
                    out.append({'own': o, 'prof': prof, 'rot': rot})
        _MSG_CASES = out
    return _MSG_CASES


@obligation('C15.parse', 'C15', cases=[{'i': i, 'shape': ','.join(f'{k.split(".", 1)[-1]}:{v}' for k, v in c['own'].items()) + f'|p{c["prof"]}r{c["rot"]}'}
                                      for i, c in enumerate(msg_cases())],
            fuc=[TR + '.MessageAny.deserialize', TR + '.CommonMsgInfo.deserialize', AC + '.StateInit.deserialize'],
            descr='MessageAny.deserialize on EVERY valid encoding generated from the schema: three headers x init absent / inline / by '
                  'reference x body inline (several bit/ref shapes) / by reference; header fields, state-init fields and the body '
                  '(bits and references) come back with the encoded values')
def parse(w, i, shape):
    M = importlib.import_module(TR)
    c = msg_cases()[i]
    cur, v = TC.encode(w, 'Message', _MSG_ARGS, c['own'], c['prof'], c['rot'])
    cell = TC.build(w, cur.node())
    s = cell.begin_parse()
    k, got = call(M.MessageAny.deserialize, s)
    w.claim(f'parser accepts the encoding ({got if k != "ok" else ""})', k == 'ok')
    if k != 'ok':
        return
    cx = TC.Ctx(w)
    TC.agree(cx, got, v, 'message')
    cx.flush()


# ---- stand-alone wrappers ---------------------------------------------------------------------------------------------
WRAPPERS = [
    ('StateInit', (), AC, 'StateInit'),
    ('TickTock', (), AC, 'TickTock'),
    ('CurrencyCollection', (), BL, 'CurrencyCollection'),
    ('ExtraCurrencyCollection', (), BL, 'ExtraCurrencyCollection'),
    ('CommonMsgInfo', (), TR, 'CommonMsgInfo'),
    ('HASH_UPDATE', (('id', 'Account'),), UT, 'HashUpdate'),
    ('AccountStatus', (), AC, 'AccountStatus'),
    ('WalletV3Data', (), WL, 'WalletV3Data'),
    ('WalletV4Data', (), WL, 'WalletV4Data'),
    ('HighloadWalletData', (), WL, 'HighloadWalletData'),
    ('NftItemData', (), NF, 'NftItemData'),
    ('NftItemSaleFees', (), NF, 'NftItemSaleFees'),
    ('NftItemSaleData', (), NF, 'NftItemSaleData'),
]
REPARSE = {'HighloadWalletData'}
_WCASES = {}


def wcases(tname, targs):
    if (tname, targs) not in _WCASES:
        import os
        own = T.own_cases(tname, targs, cap=200 if os.environ.get('VERIF_TIER') == 'thorough' else 48)
        nvar = T.max_var_n(tname, targs)
        out, seen = [], set()
        for i, o in enumerate(own):
            for prof, rot in {(i % 2, i % nvar), (1, (i * 7 + 3) % nvar)}:
                k = (tuple(sorted(o.items())), prof, rot)
                if k not in seen and T.fits(tname, targs, o, prof, rot):
                    seen.add(k)
                    out.append({'own': o, 'prof': prof, 'rot': rot})
        for r in range(nvar):
            k = (tuple(sorted(own[0].items())), 1, r)
            if k not in seen and T.fits(tname, targs, own[0], 1, r):
                seen.add(k)
                out.append({'own': own[0], 'prof': 1, 'rot': r})
        # types with more than two var-integer fields: all but ONE field carry amounts with the top bit of their byte length
        # set (one bit_length class instead of eight); the general field rotates over the cases, every field is general in
        # at least two cases per shape family
        res = []
        for i, c in enumerate(out):
            nf = T.count_var_fields(tname, targs, c['own'])
            if nf <= 2:
                res.append(dict(c, general=None))
            else:
                res.append(dict(c, general=i % nf))
                res.append(dict(c, general=(i + 1 + nf // 2) % nf))
        _WCASES[(tname, targs)] = res
    return _WCASES[(tname, targs)]


def _mkw(tname, targs, mod, cls):
    cs = wcases(tname, targs)

    @obligation(f'C15.wrap.{cls}', 'C15',
                cases=[{'i': i, 'shape': ','.join(f'{k.split(".", 1)[-1]}:{v}' for k, v in c['own'].items()) + f'|p{c["prof"]}r{c["rot"]}' +
                        ('' if c['general'] is None else f'g{c["general"]}')} for i, c in enumerate(cs)],
                fuc=[f'{mod}.{cls}.serialize', f'{mod}.{cls}.deserialize'],
                descr=f'{cls}: deserialize agrees field by field with the schema encoding of every shape (fields symbolic, canonical '
                      f'var-integer lengths), and serialize(deserialize(e)) == e: serialize emits exactly the schema encoding of the '
                      f'value and the pair round-trips')
    def ob(w, i, shape, _t=tname, _a=targs, _m=mod, _c=cls):
        c = wcases(_t, _a)[i]
        obj, cur, v = _lib_obj(w, _t, _a, _m, _c, c['own'], c['prof'], c['rot'], minimal=True,
                               top_bit=c['general'] is not None, general=c['general'])
        if obj is None:
            return
        k, cell = call(obj.serialize)
        w.claim(f'serialize does not raise ({type(cell).__name__ + ": " + str(cell)[:80] if k != "ok" else ""})', k == 'ok')
        if k != 'ok':
            return
        if _c in REPARSE:
            # contains whole messages, whose placement (inline / by reference) the serialiser may choose differently from the
            # given encoding: the re-serialised value must parse to the same value
            M = importlib.import_module(_m)
            k2, back = call(getattr(M, _c).deserialize, cell.begin_parse())
            w.claim('deserialize(serialize(x)) succeeds', k2 == 'ok')
            if k2 == 'ok':
                cx = TC.Ctx(w)
                TC.agree(cx, back, v, _c + '(2)')
                cx.flush()
        else:
            w.claim('serialize(deserialize(e)) is the schema encoding e', cell is not None and hasattr(cell, 'bits') and matches(w, cell, cur.node()))
    return ob


for _w in WRAPPERS:
    _mkw(*_w)


# ---- serialisers depend on the CURRENT field values only (no state carried between calls) ---------------------------------------

def _mut_cases():
    out = []
    for m in range(32):
        bits = tuple((m >> i) & 1 for i in range(5))
        out.append({'init': m, 'shape': ''.join(map(str, bits))})
    return out


@obligation('C15.reserialize', 'C15', cases=_mut_cases(),
            fuc=[AC + '.StateInit.serialize', AC + '.TickTock.serialize', TR + '.MessageAny.serialize'],
            descr='history independence of the serialisers: a StateInit object (every field combination) is serialised, then ALL its fields '
                  'are overwritten - top-level fields by assignment, the nested TickTock IN PLACE - with the independent symbolic values of a '
                  'second state-init of the same shape, and serialised again, alone and inside a message: the second result is the schema '
                  'encoding of the NEW values (a serialiser that remembers an earlier result would return the old one)')
def reserialize(w, init, shape):
    M = importlib.import_module(TR)
    own = _init_own(tuple((init >> i) & 1 for i in range(5)))
    o1, cur1, v1 = _lib_obj(w, 'StateInit', (), AC, 'StateInit', own, 0, 0)
    pol = T.Policy(own=dict(own), prof=0, rot=0)
    cur2, v2, _g = T.generate(w, 'StateInit', (), pol, cell_factory=lambda p: TC.leaf_cell(w, 'second.c:' + p), prefix='second.')
    o2 = importlib.import_module(AC).StateInit.deserialize(TC.build(w, cur2.node()).begin_parse())
    if o1 is None:
        return
    k, c1 = call(o1.serialize)
    w.claim('first serialisation is the schema encoding', k == 'ok' and matches(w, c1, cur1.node()))
    info, icur, iv = _lib_obj(w, 'CommonMsgInfo', (), TR, 'CommonMsgInfo', {'CommonMsgInfo!CommonMsgInfo': 1}, 0, 0, top_bit=True)
    body = TC.leaf_cell(w, 'body')
    msg = M.MessageAny(info=info, init=o1, body=body)
    call(msg.serialize)
    # step 1: ONLY the nested TickTock changes, in place (no assignment to a field of the state-init itself)
    if o1.special is not None and o2.special is not None:
        o1.special.tick, o1.special.tock = o2.special.tick, o2.special.tock
        ka, ca = call(o1.serialize)
        w.claim('after an in-place change of the nested TickTock the serialisation carries the new tick/tock', ka == 'ok')
        if ka == 'ok':
            mixed = T.Rec(v1.type, v1.cons)
            mixed.f = dict(v1.f)
            mixed.f['special'] = v2.f['special']
            kb, ob = call(importlib.import_module(AC).StateInit.deserialize, ca.begin_parse())
            if kb == 'ok':
                cx = TC.Ctx(w)
                TC.agree(cx, ob, mixed, 'state-init after the in-place change')
                cx.flush()
            else:
                w.claim('re-serialised state-init parses', False)
    # step 2: everything else by assignment
    o1.split_depth, o1.code, o1.data, o1.library = o2.split_depth, o2.code, o2.data, o2.library
    k2, c2 = call(o1.serialize)
    w.claim('after overwriting every field the serialisation is the schema encoding of the NEW values', k2 == 'ok' and matches(w, c2, cur2.node()))
    k3, mc = call(msg.serialize)
    w.claim('the message serialises', k3 == 'ok')
    if k3 == 'ok':
        k4, back = call(M.MessageAny.deserialize, mc.begin_parse())
        w.claim('the message parses back', k4 == 'ok')
        if k4 == 'ok':
            cx = TC.Ctx(w)
            TC.agree(cx, back.init, v2, 'message.init (new values)')
            cx.flush()
