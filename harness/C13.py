"""C13 — address text forms round-trip; the friendly form's checksum is enforced.

crc16 is used through its contract (C18: it IS CRC-16/XMODEM; here an uninterpreted deterministic function of the
bytes plus, for the substitution argument, the linearity lemma on the bitwise definition that C18 proves it equal to).
base64 is the assumed inverse pair T4.
"""
import base64
import importlib
from vf.engine import obligation
from vf.spec import enc as E, crc as SCRC
from vf.bits import Seq
from harness.common import call, is_error

A = 'pytoniq_core.boc.address.Address.'
VARIANTS = [{'url': u, 'bounce': b, 'test': t} for u in (True, False) for b in (True, False) for t in (True, False)]
T4 = 'T4: base64 encode/decode (both alphabets) are an inverse pair on canonical input (model written from the documentation)'
CRC = 'crc16 used through its contract (proved in C18): a deterministic function of the byte string'


def _addr(w):
    from pytoniq_core.boc.address import Address
    wc = w.int('wc', -128, 127)
    hp = w.bytes('hash', 32)
    return Address((wc, hp)), wc, hp


def _crc_stub(w):
    def crc16(data):
        return w.uf('crc16', w.bytes_seq(data))
    return crc16


def _friendly_bytes(w, s):
    """the 36 bytes a friendly string denotes (symbolic world: the base64 model; native: real decoding)"""
    if w.symbolic:
        from vf.shims import SymB64
        if type(s) is SymB64:
            return s.b, s.urlsafe
        return None, None
    return base64.urlsafe_b64decode(s), ('+' not in s and '/' not in s)


@obligation('C13.layout', 'C13', cases=VARIANTS, fuc=[A + 'to_str'], assumes=[T4, CRC],
            descr='to_str(user friendly): base64 of tag(0x11 | 0x51, | 0x80 test) ++ workchain as int8 ++ 32-byte hash ++ '
                  'crc16(first 34 bytes), in the requested alphabet; for all workchains -128..127 and all hashes; also after the '
                  'same object has been rendered in other variants before (no state carried between renderings)')
def layout(w, url, bounce, test):
    M = importlib.import_module('pytoniq_core.boc.address')
    a, wc, hp = _addr(w)
    with w.stub(M, 'crc16', _crc_stub(w)):
        before = w.choice('rendered_before', ['none', 'default', 'opposite flags', 'raw'])
        if before == 'default':
            a.to_str()
        elif before == 'opposite flags':
            a.to_str(True, url, not bounce, not test)
        elif before == 'raw':
            a.to_str(False)
        k, s = call(a.to_str, True, url, bounce, test)
    w.claim('renders', k == 'ok')
    if k != 'ok':
        return
    raw, alphabet_url = _friendly_bytes(w, s)
    w.claim('result is base64 text', raw is not None)
    if raw is None:
        return
    tag = (0x11 if bounce else 0x51) | (0x80 if test else 0)
    body = E.uint(tag, 8) + E.int_(wc, 8) + w.bytes_seq(hp)
    want = body + w.bytes_seq(w.uf('crc16', body))
    w.claim('36 bytes: tag, workchain, hash, crc16', w.eq_seq(w.bytes_seq(raw), want))
    w.claim('requested alphabet', alphabet_url == url if w.symbolic else (('-' not in s and '_' not in s) if not url else ('+' not in s and '/' not in s)))
    w.claim('object not modified by rendering', w.And(a.wc == wc, a.hash_part == hp))


@obligation('C13.roundtrip', 'C13', cases=VARIANTS + [{'url': None, 'bounce': None, 'test': None}],
            fuc=[A + '__init__', A + 'is_hex', A + 'is_b64', A + 'to_str', A + '__eq__', A + '__hash__'], assumes=[T4, CRC],
            descr='Address(a.to_str(variant)) == a with the flags as rendered, for the raw form and the 8 friendly variants, all '
                  'workchains and hashes; equal addresses hash equally; a friendly string is never taken for the raw form')
def roundtrip(w, url, bounce, test):
    M = importlib.import_module('pytoniq_core.boc.address')
    from pytoniq_core.boc.address import Address
    a, wc, hp = _addr(w)
    with w.stub(M, 'crc16', _crc_stub(w)):
        s = a.to_str(False) if url is None else a.to_str(True, url, bounce, test)
        k, b = call(Address, s)
    w.claim(f'parses ({b if k != "ok" else ""})', k == 'ok')
    if k != 'ok':
        return
    w.claim('equal address', w.And(b.wc == wc, b.hash_part == hp))
    e = (b == a)
    w.claim('== holds', e)
    w.claim('equal addresses hash equally', a.__hash__() == b.__hash__())
    if url is None:
        w.claim('raw form carries no flags', b.is_bounceable is False and b.is_test_only is False)
    else:
        w.claim('flags as rendered', bool(b.is_bounceable) == bounce and bool(b.is_test_only) == test)


@obligation('C13.eq_hash', 'C13', fuc=[A + '__eq__', A + '__hash__'],
            descr='a == b  <=>  same workchain and same hash; a == b => hash(a) == hash(b)')
def eq_hash(w):
    from pytoniq_core.boc.address import Address
    a, wc, hp = _addr(w)
    wc2 = w.int('wc2', -128, 127)
    hp2 = w.bytes('hash2', 32)
    b = Address((wc2, hp2))
    same = w.And(wc == wc2, hp == hp2)
    e = a == b
    w.claim('== <=> same workchain and hash', w.And(w.Implies(e, same), w.Implies(same, e)))
    w.claim('equal => equal hash', w.Implies(same, a.__hash__() == b.__hash__()))


@obligation('C13.checksum.enforced', 'C13', fuc=[A + '__init__', A + 'is_b64', A + 'is_hex'], assumes=[T4, CRC],
            descr='for an ARBITRARY 36-byte payload (opaque, symbolic) in either alphabet: the constructor returns normally only if '
                  'bytes 34..35 equal crc16(bytes 0..33) — both bytes — and then wc/hash/flags are read from the payload; otherwise '
                  'AddressError')
def checksum_enforced(w):
    M = importlib.import_module('pytoniq_core.boc.address')
    from pytoniq_core.boc.address import Address, AddressError
    payload = w.bytes('payload', 36)
    url = w.choice('alphabet', [True, False])
    if w.symbolic:
        from vf.shims import SymB64
        s = SymB64(payload, url, False)
    else:
        s = (base64.urlsafe_b64encode(payload) if url else base64.b64encode(payload)).decode()
    with w.stub(M, 'crc16', _crc_stub(w)):
        k, a = call(Address, s)
    seq = w.bytes_seq(payload)
    body, tail = seq.take_front(34 * 8)
    good = w.eq_seq(tail, w.bytes_seq(w.uf('crc16', body)))
    if k == 'ok':
        w.cover('accepted')
        w.claim('accepted only with a correct 2-byte checksum', good)
        tagb, rest = body.take_front(8)
        wcb, hb = rest.take_front(8)
        w.claim('hash part read from the payload', w.eq_seq(w.bytes_seq(a.hash_part), hb))
        v = w.val(wcb)
        w.claim('workchain read as int8', a.wc == w.ite(v >= 128, v - 256, v))
    else:
        w.cover('rejected')
        w.claim('rejected only with a wrong checksum', w.Not(good))
        w.claim(f'rejection is AddressError ({type(a).__name__})', isinstance(a, AddressError))


@obligation('C13.crc16.linear', 'C13', fuc=['pytoniq_core.crypto.crc.crc16'],
            descr='lemma (bit-vector theory, on the bitwise byte step that C18 proves the real loop body equal to, for all states and '
                  'bytes): step(s1^s2, b1^b2) == step(s1,b1)^step(s2,b2) and step(0,0) == 0; with init 0 and no final xor, induction '
                  'over the length gives crc16(A^B) == crc16(A)^crc16(B) for equal-length messages')
def crc16_linear(w):
    if not w.symbolic:
        n = w.int('n', 0, 40)
        a, b = w.bytes('a', n), w.bytes('b', n)
        from pytoniq_core.crypto.crc import crc16
        x = bytes(p ^ q for p, q in zip(a, b))
        w.claim('crc16(a^b) == crc16(a)^crc16(b)', int.from_bytes(crc16(x), 'big') ==
                int.from_bytes(crc16(a), 'big') ^ int.from_bytes(crc16(b), 'big'))
        return
    import z3
    s1, s2, b1, b2 = z3.BitVecs('s1 s2 b1 b2', 16)
    pre = z3.And(z3.ULT(b1, 256), z3.ULT(b2, 256))

    def st(crc, byte):
        """the byte step with the conditional xor written as a mask (-(msb) & poly)"""
        crc = crc ^ (byte << 8)
        for _ in range(8):
            crc = (crc << 1) ^ ((z3.BitVecVal(0, 16) - z3.LShR(crc, 15)) & 0x1021)
        return crc
    w.claim('mask form == the bitwise definition of C18 (if-then-else form), all states and bytes',
            z3.Implies(z3.ULT(b1, 256), st(s1, b1) == SCRC.bv_crc16_step(z3, s1, b1)))
    w.claim('byte step is linear over GF(2)', z3.Implies(pre, st(s1 ^ s2, b1 ^ b2) == st(s1, b1) ^ st(s2, b2)))
    w.claim('step(0, 0) == 0', st(z3.BitVecVal(0, 16), z3.BitVecVal(0, 16)) == 0)


@obligation('C13.syndromes', 'C13', cases=[{'lo': i, 'hi': i + 6} for i in range(0, 48, 6)], fuc=['pytoniq_core.crypto.crc.crc16', A + 'is_b64'],
            descr='finite, exhaustive: for each of the 48 character positions and each of the 63 non-zero 6-bit differences, the error '
                  'pattern E (36 bytes) has crc16(E[:34]) != E[34:], evaluated with the REAL crc16; by linearity a one-character '
                  'substitution therefore always breaks "bytes 34..35 == crc16(bytes 0..33)", for every address and variant')
def syndromes(w, lo, hi):
    from pytoniq_core.crypto.crc import crc16
    bad = []
    n = 0
    for pos in range(lo, hi):
        for d in range(1, 64):
            e = (d << (6 * (47 - pos))).to_bytes(36, 'big')
            n += 1
            if crc16(e[:34]) == e[34:]:
                bad.append((pos, d))
    w.claim(f'all {n} single-symbol error patterns at positions {lo}..{hi - 1} have a non-zero syndrome {bad[:3]}', not bad)


@obligation('C13.substitution.native', 'C13', kind='bounded', samples=12, fuc=[A + '__init__', A + 'is_b64', A + 'to_str'],
            descr='bounded: random addresses x 8 variants x ALL 48x63 single-character substitutions (by any other character of the '
                  'union alphabet A-Za-z0-9+/-_): every one is rejected with an error; round trip of the unmodified string')
def substitution_native(w):
    from pytoniq_core.boc.address import Address
    wc = w.int('wc', -128, 127)
    hp = w.bytes('hash', 32)
    a = Address((wc, hp))
    n = 0
    for v in VARIANTS:
        s = a.to_str(True, v['url'], v['bounce'], v['test'])
        b = Address(s)
        w.claim('round trip', b == a and b.is_bounceable == v['bounce'] and b.is_test_only == v['test'])
        alpha = 'ABCDEFGHIJKLMNOPQRSTUVWXYZabcdefghijklmnopqrstuvwxyz0123456789' + ('-_' if v['url'] else '+/')
        for i in range(48):
            for ch in alpha:
                if ch == s[i]:
                    continue
                n += 1
                t = s[:i] + ch + s[i + 1:]
                try:
                    Address(t)
                except Exception:
                    continue
                w.claim(f'substituted address {t} (position {i}) must be rejected', False)
                return
    w.used['substitutions'] = n
    w.claim('all substitutions rejected', True)
