"""C20 — ADNL channel crypto is symmetric between peers; signatures and keys consistent.

Thin deductive layer over ASSUMED primitives (T6: X25519 commutativity dh(a, pub(b)) = dh(b, pub(a)); AES-CTR decryption inverts
encryption under the same key and counter block; SHA-256 an uninterpreted function): the REAL AdnlChannel.__init__/encrypt/decrypt,
create_aes_ctr_sipher_from_key_n_data and get_key_aes_id run on symbolic 32-byte secrets and ids, in all three orderings of the
two ids.  Everything that is a property of the cryptographic libraries themselves (a signature fails for any other message/key,
mnemonic validity) is only SAMPLED natively with the real libraries (bounded) - see DESIGN.md.
"""
import importlib
from vf.engine import obligation
from harness.common import call, is_error

CI = 'pytoniq_core.crypto.ciphers.'
T6 = ('T6 (assumed contracts of dependencies): x25519.scalar_mult(a, pub(b)) == x25519.scalar_mult(b, pub(a)); '
      'AES-CTR: decrypt(key, iv, encrypt(key, iv, x)) == x and a different key or counter block does not decrypt; '
      'Ed25519 unforgeability (negative signature claims) is a property of PyNaCl, sampled only')


class _Key:
    def __init__(self, b):
        self.b = b

    def encode(self):
        return self.b


class _Peer:
    def __init__(self, priv, pub):
        self.x25519_private = _Key(priv)
        self.x25519_public = _Key(pub)


class _Cipher:
    """model of an AES-CTR cipher object: ciphertext is the tagged triple (key, iv, plaintext)"""

    def __init__(self, key, iv):
        self.key, self.iv = key, iv

    def encrypt(self, x):
        return _CT(('aes-ctr', self.key, self.iv, x))

    def decrypt(self, ct):
        return ('aes-ctr-dec', self.key, self.iv, ct)


class _CT:
    """model ciphertext; `prefix + ciphertext` keeps the 64-byte prefix and the ciphertext apart"""

    def __init__(self, t):
        self.t = t

    def __radd__(self, prefix):
        return _Packet([prefix[0:32], prefix[32:64], self, prefix])


class _Packet:
    def __init__(self, parts):
        self.parts = parts


@obligation('C20.channel', 'C20', cases=[{'order': o} for o in ('a>b', 'a<b', 'a=b')], assumes=[T6],
            fuc=[CI + 'AdnlChannel.__init__', CI + 'AdnlChannel.encrypt', CI + 'AdnlChannel.decrypt',
                 CI + 'create_aes_ctr_sipher_from_key_n_data', CI + 'get_key_aes_id'],
            descr='two peers A (id a) and B (id b) with a common X25519 secret S (symbolic 32 bytes; T6 commutativity), ids symbolic in '
                  'each ordering: A.enc_key == B.dec_key and A.dec_key == B.enc_key; A.encrypt(x) == key_id(A.enc_key) ++ SHA256(x) ++ '
                  'CTR[key = k[0:16]++h[16:32], iv = h[0:4]++k[20:32]](x); the key id is the one B expects (B.server_aes_key_id); '
                  'B.decrypt uses exactly the same key and counter block, hence returns x; and symmetrically B -> A')
def channel(w, order):
    M = importlib.import_module('pytoniq_core.crypto.ciphers')
    S = w.bytes('S', 32)
    a = w.bytes('ida', 32)
    b = w.bytes('idb', 32) if order != 'a=b' else a
    if w.symbolic:
        from vf.bits import to_seq_bytes
        va, vb = w.val(w.bytes_seq(a)), w.val(w.bytes_seq(b))
        if order == 'a>b':
            w.assume(va > vb)
        elif order == 'a<b':
            w.assume(va < vb)
    else:
        if order == 'a>b' and not a > b:
            a, b = b, a
        if order == 'a<b' and not a < b:
            a, b = b, a
        if order != 'a=b' and a == b:
            from vf.engine import Skip
            raise Skip()
    pa, pb = _Peer(w.bytes('priv_a', 32), w.bytes('pub_a', 32)), _Peer(w.bytes('priv_b', 32), w.bytes('pub_b', 32))
    seen = []

    def shared(priv, pub):
        seen.append((priv, pub))
        return S
    real_shared, real_cipher = M.get_shared_key, M.create_aes_ctr_cipher
    M.get_shared_key = shared
    made = []

    def mk_cipher(key, iv):
        made.append((key, iv))
        return _Cipher(key, iv)
    M.create_aes_ctr_cipher = mk_cipher
    try:
        A = M.AdnlChannel(pa, pb, a, b)
        B = M.AdnlChannel(pb, pa, b, a)
        w.claim('the shared secret is computed from own private and peer public key',
                len(seen) == 2 and seen[0][0] is pa.x25519_private.b and seen[0][1] is pb.x25519_public.b and
                seen[1][0] is pb.x25519_private.b and seen[1][1] is pa.x25519_public.b)
        w.claim('A.enc_key == B.dec_key', A.enc_key == B.dec_key)
        w.claim('A.dec_key == B.enc_key', A.dec_key == B.enc_key)
        w.claim('A announces the key id B expects', A.client_aes_key_id == B.server_aes_key_id)
        w.claim('B announces the key id A expects', B.client_aes_key_id == A.server_aes_key_id)
        rev = S[::-1]
        if order == 'a>b':
            w.claim('the larger id encrypts with the secret as is', w.And(A.enc_key == S, A.dec_key == rev))
        elif order == 'a<b':
            w.claim('the smaller id encrypts with the reversed secret', w.And(A.enc_key == rev, A.dec_key == S))
        else:
            w.claim('equal ids: both directions use the secret as is', w.And(A.enc_key == S, A.dec_key == S))
        n = w.choice('n', [0, 1, 16, 77])
        x = w.bytes('x', n)
        for (X, Y, tag) in ((A, B, 'A->B'), (B, A, 'B->A')):
            n0 = len(made)
            X.encrypt(x)
            pkt = X.encrypt(x)
            w.claim(f'{tag}: every encrypt derives a FRESH cipher (CTR ciphers are stateful: no reuse across calls)', len(made) == n0 + 2)
            h = w.uf('sha256', w.bytes_seq(x))
            w.claim(f'{tag}: packet is key id ++ SHA256(x) ++ ciphertext', False if not hasattr(pkt, 'parts') else
                    w.And(len(pkt.parts[3]) == 64, pkt.parts[0] == Y.server_aes_key_id, pkt.parts[1] == h))
            if hasattr(pkt, 'parts'):
                ctobj = pkt.parts[2]
                ct = ctobj.t
                key = X.enc_key[0:16] + h[16:32]
                iv = h[0:4] + X.enc_key[20:32]
                w.claim(f'{tag}: AES key = k[0:16] ++ h[16:32], counter block = h[0:4] ++ k[20:32]',
                        ct[0] == 'aes-ctr' and w.And(ct[1] == key, ct[2] == iv) and ct[3] is x)
                n1 = len(made)
                Y.decrypt(ctobj, pkt.parts[1])
                dec = Y.decrypt(ctobj, pkt.parts[1])
                w.claim(f'{tag}: every decrypt derives a fresh cipher', len(made) == n1 + 2)
                w.claim(f'{tag}: the peer decrypts with the same key and counter block, i.e. recovers x',
                        dec[0] == 'aes-ctr-dec' and w.And(dec[1] == ct[1], dec[2] == ct[2]) and dec[3] is ctobj)
    finally:
        M.get_shared_key, M.create_aes_ctr_cipher = real_shared, real_cipher


@obligation('C20.native', 'C20', kind='bounded', samples=60, assumes=[T6],
            fuc=[CI + 'AdnlChannel.__init__', CI + 'AdnlChannel.encrypt', CI + 'AdnlChannel.decrypt', CI + 'Client.__init__',
                 CI + 'Server.__init__', CI + 'get_shared_key', CI + 'get_signature', 'pytoniq_core.crypto.signature.verify_sign',
                 'pytoniq_core.crypto.signature.sign_message'],
            descr='bounded, native with the real libraries: random Ed25519 seed pairs (both id orderings and equal ids; after 0..2 earlier '
                  'channels of other key pairs to the same peers), plaintext lengths '
                  '0..4096: each side decrypts what the other encrypts, the packet carries SHA-256 of the plaintext and the key id the '
                  'peer expects; signatures verify under the matching key and fail for a flipped message bit, another key, a flipped '
                  'signature bit')
def native(w):
    import hashlib
    M = importlib.import_module('pytoniq_core.crypto.ciphers')
    SG = importlib.import_module('pytoniq_core.crypto.signature')
    rng = w.rng
    sa, sb = bytes(rng.getrandbits(8) for _ in range(32)), bytes(rng.getrandbits(8) for _ in range(32))
    ca, cb = M.Client(sa), M.Client(sb)
    # history independence: earlier channels of OTHER key pairs to the same peers (a shared secret remembered per peer key would leak
    # into the channels under test)
    for _ in range(rng.choice([0, 1, 2])):
        cc = M.Client(bytes(rng.getrandbits(8) for _ in range(32)))
        d1 = M.AdnlChannel(cc, M.Server('h', 1, cb.ed25519_public.encode()), cc.get_key_id(), cb.get_key_id())
        d2 = M.AdnlChannel(cc, M.Server('h', 1, ca.ed25519_public.encode()), cc.get_key_id(), ca.get_key_id())
        d1.encrypt(b'decoy'), d2.encrypt(b'decoy')
    srv_b = M.Server('h', 1, cb.ed25519_public.encode())
    srv_a = M.Server('h', 1, ca.ed25519_public.encode())
    ida, idb = ca.get_key_id(), cb.get_key_id()
    mode = rng.choice(['ids', 'swapped', 'equal'])
    if mode == 'swapped':
        la, lb = idb, ida
    elif mode == 'equal':
        la = lb = ida
    else:
        la, lb = ida, idb
    A = M.AdnlChannel(ca, srv_b, la, lb)
    B = M.AdnlChannel(cb, srv_a, lb, la)
    w.claim('shared secrets agree', A.channel_shared == B.channel_shared)
    w.claim('A.enc == B.dec and A.dec == B.enc', A.enc_key == B.dec_key and A.dec_key == B.enc_key)
    n = rng.choice([0, 1, 15, 16, 17, 1000, 4096])
    x = bytes(rng.getrandbits(8) for _ in range(n))
    for X, Y in ((A, B), (B, A)):
        pkt = X.encrypt(x)
        w.claim('packet layout: key id ++ sha256 ++ ciphertext of equal length', len(pkt) == 64 + n and pkt[32:64] == hashlib.sha256(x).digest())
        w.claim('key id is the one the peer expects', pkt[:32] == Y.server_aes_key_id)
        w.claim('peer decrypts exactly the plaintext', Y.decrypt(pkt[64:], pkt[32:64]) == x)
        w.claim('duplicate delivery: decrypting the same packet again gives the plaintext again', Y.decrypt(pkt[64:], pkt[32:64]) == x)
        pkt2 = X.encrypt(x)
        w.claim('retransmission: encrypting the same plaintext again gives the same packet', pkt2 == pkt)
        w.claim('retransmission decrypts', Y.decrypt(pkt2[64:], pkt2[32:64]) == x)
    # signatures
    msg = bytes(rng.getrandbits(8) for _ in range(rng.choice([0, 1, 32, 200])))
    sig = ca.sign(msg)
    pk = ca.ed25519_public.encode()
    w.claim('signature verifies under the matching key', SG.verify_sign(pk, msg, sig) is True)
    w.claim('64-byte signature', len(sig) == 64)
    sig2 = SG.sign_message(msg, bytes(ca.ed25519_private._signing_key))
    w.claim('sign_message gives the same (deterministic) signature', sig2 == sig)
    # the helper's optional encoder argument: the encoded result decodes to the same 64-byte signature (which verifies)
    import nacl.encoding as _ne
    for enc in (_ne.RawEncoder, _ne.HexEncoder, _ne.Base64Encoder, _ne.URLSafeBase64Encoder):
        ke, se = call(SG.sign_message, msg, bytes(ca.ed25519_private._signing_key), enc)
        w.claim(f'sign_message(encoder={enc.__name__}) decodes to the 64-byte signature',
                ke == 'ok' and enc.decode(se) == sig)
    if msg:
        bad = bytes([msg[0] ^ 1]) + msg[1:]
        w.claim('fails for another message', SG.verify_sign(pk, bad, sig) is False)
    w.claim('fails for another key', SG.verify_sign(cb.ed25519_public.encode(), msg, sig) is False)
    i = rng.randrange(64)
    bs = sig[:i] + bytes([sig[i] ^ (1 << rng.randrange(8))]) + sig[i + 1:]
    w.claim('fails for an altered signature', SG.verify_sign(pk, msg, bs) is False)
    for alt in (sig + b'\x00', sig + msg, sig + sig, sig[:63], b''):
        if alt == sig:
            continue
        ka, ra = call(SG.verify_sign, pk, msg, alt)
        w.claim(f'a signature of another length ({len(alt)} bytes) does not verify', ka == 'raise' or ra is False)


@obligation('C20.verify', 'C20', cases=[{'accept': a} for a in (True, False)], assumes=[T6],
            fuc=['pytoniq_core.crypto.signature.verify_sign'],
            descr='verify_sign(pk, m, s) with PyNaCl\'s VerifyKey replaced by a recording model: the library hands EXACTLY the given key, message '
                  'and signature to the primitive (no truncation, slicing or re-encoding: the same objects), once, and returns True iff the '
                  'primitive accepts, False iff it raises BadSignatureError - so every signature the primitive rejects (other message, other '
                  'key, altered or length-extended signature) is rejected by the helper')
def verify(w, accept):
    SG = importlib.import_module('pytoniq_core.crypto.signature')
    pk, m, s = w.bytes('pk', 32), w.bytes('m', w.choice('mlen', [0, 5, 100])), w.bytes('s', w.choice('slen', [64, 65, 128, 10]))
    seen = []

    class VK:
        def __init__(self, key):
            seen.append(('key', key))

        def verify(self, smessage, signature=None):
            seen.append(('verify', smessage, signature))
            if not accept:
                raise SG.exc.BadSignatureError('model')
            return smessage
    real = SG.VerifyKey
    SG.VerifyKey = VK
    try:
        k, r = call(SG.verify_sign, pk, m, s)
    finally:
        SG.VerifyKey = real
    w.claim('does not raise', k == 'ok')
    w.claim('result is the primitive\'s verdict', k == 'ok' and r is accept)
    # by VALUE (a copy of the same bytes is as good as the object); the combined form verify(sig ++ msg) denotes the same check only
    # when the signature has exactly 64 bytes (the primitive cuts the combined form at byte 64)
    shape = len(seen) == 2 and seen[0][0] == 'key' and seen[1][0] == 'verify'
    w.claim('the primitive is constructed once and asked once', shape)
    if shape:
        B = w.bytes_seq
        sm, sg = seen[1][1], seen[1][2]
        detached = sg is not None and w.And(w.eq_seq(B(sm), B(m)), w.eq_seq(B(sg), B(s)))
        combined = sg is None and len(s) == 64 and w.eq_seq(B(sm), B(s) + B(m))
        w.claim('the primitive receives exactly the given key', w.eq_seq(B(seen[0][1]), B(pk)))
        w.claim('the primitive receives exactly the given message and signature (detached, or combined with a 64-byte signature)',
                w.Or(detached, combined))


@obligation('C20.mnemonic', 'C20', kind='bounded', samples=6,
            fuc=['pytoniq_core.crypto.keys.mnemonic_new', 'pytoniq_core.crypto.keys.mnemonic_is_valid',
                 'pytoniq_core.crypto.keys.mnemonic_to_wallet_key', 'pytoniq_core.crypto.keys.mnemonic_to_private_key'],
            descr='bounded, native: generated mnemonics (default call, and explicit length 24 with and without a password) have 24 words from the list and are valid; key derivation is deterministic '
                  '(same mnemonic, same key pair; the public key is the Ed25519 public key of the secret key); a mnemonic with a '
                  'changed word is (almost always) invalid and derives a different key')
def mnemonic(w):
    K = importlib.import_module('pytoniq_core.crypto.keys')
    m = K.mnemonic_new()
    w.claim('24 words from the list', len(m) == 24 and all(x in K.words for x in m))
    w.claim('generated mnemonic is valid', K.mnemonic_is_valid(m) is True)
    # every way of calling the generator for a standard 24-word mnemonic: explicit length, with / without a password
    pw = w.rng.choice([None, '', 'pw', 'correct horse', ''.join(chr(w.rng.randrange(33, 127)) for _ in range(w.rng.randrange(1, 20)))])
    w.used['password'] = pw
    mp = K.mnemonic_new(24, pw)
    w.claim(f'mnemonic_new(24, password={pw!r}): 24 words from the list', len(mp) == 24 and all(x in K.words for x in mp))
    w.claim(f'mnemonic_new(24, password={pw!r}): generated mnemonic is valid', K.mnemonic_is_valid(mp) is True)
    w.claim('derivation with that password is deterministic', K.mnemonic_to_wallet_key(mp, pw) == K.mnemonic_to_wallet_key(list(mp), pw))
    k1, k2 = K.mnemonic_to_wallet_key(m), K.mnemonic_to_wallet_key(list(m))
    w.claim('derivation is deterministic', k1 == k2)
    w.claim('public key matches the secret key', K.private_key_to_public_key(k1[1]) == k1[0] and len(k1[0]) == 32 and len(k1[1]) == 64)
    w.claim('23 words are not a valid mnemonic', K.mnemonic_is_valid(m[:23]) is False)
