"""C02 — exotic cells: level masks, per-level hashes and depths, constructibility, Merkle pruning invariance.

Finite case split (cell type x own level mask x kinds/masks of the children) with symbolic contents: own data, and for
each child symbolic per-level hashes/depths (or, for pruned-branch children, symbolic STORED hashes/depths in their data).
Specification: vf/spec/cell.py (level_hashes / observe / resolve_mask), written from the TON cell specification.
"""
import os
from vf.engine import obligation
from vf.spec import cell as SC, enc as E
from vf.bits import Seq
from harness.common import call, is_error, same_objects, abstract_child, bits_of

C = 'pytoniq_core.boc.cell.Cell.'
L = 'pytoniq_core.boc.exotic.LevelMask.'
INIT = [C + '__init__', C + 'resolve_mask', C + 'calculate_hashes', C + 'get_descriptors', C + 'get_refs_descriptor',
        C + 'get_bits_descriptor', C + 'get_data_bytes', C + 'get_hash', C + 'get_depth', L + '__init__', L + 'apply',
        L + 'get_level', L + 'get_hash_index', L + 'is_significant']

ASSUME = ['T3: SHA-256 as an uninterpreted deterministic function (equal inputs <=> same term)']
KINDS = [('plain', m) for m in range(8)] + [('pruned', m) for m in range(1, 8)]
FEW = [('plain', 0), ('plain', 5), ('pruned', 2), ('pruned', 7)]
FEWER = [('plain', 0), ('plain', 6), ('pruned', 3)]


@obligation('C02.levelmask', 'C02', fuc=[L + '__init__', L + 'get_level', L + 'get_hash_index', L + 'apply', L + 'is_significant'],
            descr='LevelMask algebra on the whole finite domain (8 masks x levels 0..4): level = bit length, hash index = '
                  'popcount, apply(l) = m & (2^l-1), significance; exhaustive, hence complete')
def levelmask(w):
    from pytoniq_core.boc.exotic import LevelMask
    for m in range(8):
        lm = LevelMask(m)
        w.claim(f'mask {m}: level', lm.get_level() == SC.level(m) and lm.level == SC.level(m))
        w.claim(f'mask {m}: hash index', lm.get_hash_index() == SC.popcount(m) and lm.hash_index == SC.popcount(m))
        w.claim(f'mask {m}: mask', lm.mask == m)
        for l in range(5):
            w.claim(f'mask {m}: apply({l})', lm.apply(l).mask == SC.apply(m, l))
            w.claim(f'mask {m}: is_significant({l})', bool(lm.is_significant(l)) == SC.significant(m, l))


def _children(w, r, kinds):
    """kinds: list of r concrete (kind, mask) pairs, or a list of candidates to fork over per child"""
    out = []
    for i in range(r):
        if len(kinds) == r and isinstance(kinds[i], str):
            kind, m = kinds[i][0], int(kinds[i][1])
            kind = 'plain' if kind == 'o' else 'pruned'
        else:
            kind, m = w.choice(f'kind{i}', kinds)
        out.append(abstract_child(w, f'k{i}', kind, m))
    return [c for c, _ in out], [o for _, o in out]


def _code(k):
    return ('o' if k[0] == 'plain' else 'p') + str(k[1])


def _own_data(w, type_, mask, r):
    """spec-valid data layout of the cell type: returns (bits Seq, bit length, b mod 8)"""
    if type_ == SC.ORDINARY:
        m8 = w.choice('m8', [0, 5])
        q = w.int('q', 0, 127)
        b = 8 * q + m8
        w.assume(b <= 1023)
        return w.bits('D', b), b, m8
    if type_ == SC.PRUNED:
        k = SC.popcount(mask)
        s = E.lit('00000001') + E.uint(mask, 8) + w.bits('stored', 272 * k)
        return s, 16 + 272 * k, 0
    if type_ == SC.LIBRARY:
        return E.lit('00000010') + w.bits('libhash', 256), 264, 0
    if type_ == SC.MERKLE_PROOF:
        return E.lit('00000011') + w.bits('vhash', 256) + w.bits('vdepth', 16), 280, 0
    return E.lit('00000100') + w.bits('vhash', 512) + w.bits('vdepth', 32), 552, 0


def _build_and_check(w, type_, own_mask, r, kinds):
    from pytoniq_core.boc.cell import Cell, CellError
    from pytoniq_core.boc.tvm_bitarray import TvmBitarray
    kids, obs = _children(w, r, kinds)
    bits, b, m8 = _own_data(w, type_, own_mask, r)
    mask = SC.resolve_mask(type_, own_mask, [o.mask for o in obs])
    k, c = call(Cell, w.mk_bitarray(TvmBitarray, bits, 1023), kids, type_)
    hs, ds = SC.level_hashes(w, type_, mask, bits, b, m8, obs)
    too_deep = False
    for d in ds:
        too_deep = w.Or(too_deep, d >= 1024)
    if k == 'raise':
        w.cover('raise')
        w.claim(f'a spec-valid cell is refused only when a depth would reach 1024 ({type(c).__name__}: {c})', too_deep)
        w.claim('exception is CellError', isinstance(c, CellError))
        return None
    w.cover('ok')
    w.claim('depth >= 1024 is refused', w.Not(too_deep))
    w.claim('level mask == specification', c.level_mask.mask == mask)
    me = SC.observe(w, type_, mask, hs, ds, bits)
    for l in range(4):
        w.claim(f'get_hash({l}) == specification', c.get_hash(l) == me.hash_at(l))
        w.claim(f'get_depth({l}) == specification', c.get_depth(l) == me.depth_at(l))
    w.claim('hash is the top-level hash', c.hash == hs[-1])
    w.claim('refs and bits kept', same_objects(c.refs, kids) and w.eq_seq(bits_of(w, c), bits))
    return c


SIX = [('plain', 0), ('plain', 3), ('plain', 5), ('pruned', 1), ('pruned', 2), ('pruned', 6)]
PAIRS_Q = [[_code(a), _code(b)] for a in SIX for b in SIX]
PAIRS_ALL = [[_code(a), _code(b)] for a in KINDS for b in KINDS]
PAIRS_T = [p for p in PAIRS_ALL if p not in PAIRS_Q]
TRIPLES_Q = [[_code(a), _code(b), _code(c)] for a in FEW for b in FEW for c in FEW]
QUADS_Q = [[_code(a), _code(b), _code(c), _code(d)] for a in FEWER for b in FEWER for c in FEWER for d in FEWER]


TRIPLES_QQ = [['o0', 'p2', 'o1'], ['p1', 'o0', 'o0'], ['o1', 'o2', 'p1'], ['p2', 'p1', 'o0']]
QUADS_QQ = [['o0', 'o0', 'p1', 'o0'], ['o1', 'p2', 'o0', 'o0'], ['p1', 'o0', 'o2', 'o1']]


@obligation('C02.ordinary', 'C02', cases=[{'kids': [_code(k)]} for k in KINDS] + [{'kids': p} for p in PAIRS_Q] +
            [{'kids': t} for t in TRIPLES_QQ] + [{'kids': q} for q in QUADS_QQ],
            fuc=INIT, assumes=ASSUME, budget={'seconds': 900, 'paths': 200000},
            descr='ordinary cell over children of given kinds (oM = non-pruned child with level mask M, pM = pruned branch with '
                  'mask M): one child: all 15 kinds; two: all pairs over six kinds; three/four: a sample of combinations over '
                  '4/3 kinds.  (quick tier: 4 and 3 combinations with masks <= 3; the thorough tier runs all).  mask = OR, level-l hash chain and depths per specification')
def ordinary(w, kids):
    _build_and_check(w, SC.ORDINARY, None, len(kids), kids)


@obligation('C02.ordinary.full', 'C02', cases=[{'kids': p} for p in PAIRS_T] + [{'kids': t} for t in TRIPLES_Q] +
            [{'kids': q} for q in QUADS_Q], tier='thorough', fuc=INIT, assumes=ASSUME,
            budget={'seconds': 3600, 'paths': 2000000},
            descr='thorough tier: the remaining pairs over all 15 child kinds, all triples over 4 kinds, all quadruples over 3')
def ordinary_full(w, kids):
    _build_and_check(w, SC.ORDINARY, None, len(kids), kids)


@obligation('C02.pruned', 'C02', cases=[{'mask': m} for m in range(1, 8)], fuc=INIT, assumes=ASSUME,
            descr='pruned-branch cell with every level mask 1..7 (data = type, mask, stored hashes, stored depths: symbolic): '
                  'constructible; reports the stored hash/depth below its level and its own representation hash at it')
def pruned(w, mask):
    _build_and_check(w, SC.PRUNED, mask, 0, KINDS)


@obligation('C02.library', 'C02', fuc=INIT, assumes=ASSUME, descr='library-reference cell: mask 0, one hash over d1=8 d2 data')
def library(w):
    _build_and_check(w, SC.LIBRARY, None, 0, KINDS)


@obligation('C02.merkle_proof', 'C02', fuc=INIT, assumes=ASSUME,
            descr='Merkle-proof cell over a child of every kind/mask: mask = child mask >> 1, child observed one level up')
def merkle_proof(w):
    _build_and_check(w, SC.MERKLE_PROOF, None, 1, KINDS)


@obligation('C02.merkle_update', 'C02', cases=[{'kids': p} for p in PAIRS_Q], fuc=INIT, assumes=ASSUME, budget={'seconds': 900},
            descr='Merkle-update cell over two children (all pairs over six kinds): mask = (m0|m1) >> 1, children observed one '
                  'level up')
def merkle_update(w, kids):
    _build_and_check(w, SC.MERKLE_UPDATE, None, 2, kids)


@obligation('C02.merkle_update.full', 'C02', cases=[{'kids': p} for p in PAIRS_T], tier='thorough', fuc=INIT, assumes=ASSUME,
            budget={'seconds': 3600}, descr='thorough tier: Merkle-update cell over the remaining pairs of all 15 child kinds')
def merkle_update_full(w, kids):
    _build_and_check(w, SC.MERKLE_UPDATE, None, 2, kids)


def _inv_cases():
    out = []
    for parent, n in (('ordinary', 2), ('merkle_proof', 1), ('merkle_update', 2)):
        o = 0 if parent == 'ordinary' else 1
        for pos in range(n):
            for pm in range(1, 8):
                if SC.popcount(SC.apply(pm, o)) != SC.popcount(pm):      # level o is answered from a stored slot
                    out.append({'parent': parent, 'pos': pos, 'pm': pm})
    return out


@obligation('C02.pruning_invariance', 'C02', cases=_inv_cases(), fuc=INIT, assumes=ASSUME,
            descr='relational: a parent built over a subtree A (level mask 0 or 5) and the same parent built over a pruned branch '
                  '(mask pm) that carries A\'s hash and depth at the observed level report the same level-0 hash and depth, for '
                  'every pruned mask whose stored slot is the one observed; siblings of several kinds (induction over enclosing '
                  'cells gives any nesting)')
def pruning_invariance(w, parent, pos, pm):
    from pytoniq_core.boc.cell import Cell
    from pytoniq_core.boc.tvm_bitarray import TvmBitarray
    type_ = {'ordinary': SC.ORDINARY, 'merkle_proof': SC.MERKLE_PROOF, 'merkle_update': SC.MERKLE_UPDATE}[parent]
    n = {'ordinary': 2, 'merkle_proof': 1, 'merkle_update': 2}[parent]
    o = 0 if type_ == SC.ORDINARY else 1                 # level at which the parent's level-0 hash observes its children
    rich = os.environ.get('VERIF_TIER') == 'thorough'
    am = w.choice('a_mask', [0, 5] if rich else [0])
    a, a_obs = abstract_child(w, 'A', 'plain', am)
    slot = SC.popcount(SC.apply(pm, o))
    p, p_obs = abstract_child(w, 'B', 'pruned', pm, stored={slot: (a_obs.hash_at(o), a_obs.depth_at(o))})
    others = [abstract_child(w, f'o{i}', *w.choice(f'okind{i}', [('plain', 0), ('pruned', 3)] if rich else [('plain', 1)])) for i in range(n - 1)]
    bits, b, m8 = _own_data(w, type_, None, n)
    res = []
    for sub in (a, p):
        kids = [c for c, _ in others]
        kids.insert(pos, sub)
        k, c = call(Cell, w.mk_bitarray(TvmBitarray, bits, 1023), kids, type_)
        res.append((k, c))
    (k1, c1), (k2, c2) = res
    if k1 == 'ok' and k2 == 'ok':
        w.cover('ok')
        w.claim('level-0 hash unchanged by pruning', c1.get_hash(0) == c2.get_hash(0))
        w.claim('level-0 depth unchanged by pruning', c1.get_depth(0) == c2.get_depth(0))
    else:
        w.claim('a refusal concerns depth only', all(k == 'ok' or is_error(c) for k, c in res))
