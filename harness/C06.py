"""C06 — typed Builder stores and Slice loads are mutually inverse and bit-exact (TL-B encodings).

Per operation X two generic contracts; the prefix P (already stored bits) and the rest R (bits that follow) are
opaque strings of SYMBOLIC length, so the per-operation facts compose for every sequence and interleaving:
   store_X(v):  bits' = bits ++ enc_X(v), refs' = refs ++ refs_X(v), returns self           (enc_X from vf/spec/enc.py)
   load_X() on bits = enc_X(v) ++ R:  returns v and leaves exactly R;   preload_X(): same v, nothing changes
"""
from vf.engine import obligation
from vf.spec import enc as E
from vf.bits import Seq
from harness.common import (mk_builder, mk_slice, bits_of, call, check_store, Child, is_error, same_objects)

B = 'pytoniq_core.boc.builder.Builder.'
S = 'pytoniq_core.boc.slice.Slice.'
T = 'pytoniq_core.boc.tvm_bitarray.TvmBitarray.'
TVM = [T + 'extend', T + 'append', T + 'frombytes', T + 'check_overflow', T + 'check_underflow', T + '__delitem__',
       T + 'copy']

WIDTHS = [{'n': n} for n in range(1, 258)]


def _pre(w, q=2):
    p = w.int('p', 0, 1023)
    refs = [Child(i) for i in range(q)]
    b, pre = mk_builder(w, p, refs)
    return b, pre, refs


def _post_load(w, s, rest, refs, off, label=''):
    w.claim(label + 'leaves exactly the rest', w.eq_seq(bits_of(w, s), rest))
    w.claim(label + 'refs untouched', same_objects(s.refs, refs) and s.ref_offset == off)


def _slice_with(w, encd, q=1):
    """slice whose data is enc ++ R with |enc|+|R| <= 1023"""
    r = w.int('r', 0, 1023 - encd.length())
    rest = w.bits('R', r)
    refs = [Child(i) for i in range(q)]
    return mk_slice(w, encd + rest, refs), rest, refs


def _roundtrip(w, encd, loader, preloader, v, eq=None, q=1):
    s, rest, refs = _slice_with(w, encd, q)
    whole = encd + rest
    if preloader is not None:
        k, got = call(preloader, s)
        w.claim('preload does not raise', k == 'ok')
        if k == 'ok':
            w.claim('preload returns the stored value', eq(got, v) if eq else got == v)
            w.claim('preload consumes nothing', w.eq_seq(bits_of(w, s), whole))
            w.claim('preload leaves refs', same_objects(s.refs, refs) and s.ref_offset == 0)
    k, got = call(loader, s)
    w.claim('load does not raise', k == 'ok')
    if k == 'ok':
        w.claim('load returns the stored value', eq(got, v) if eq else got == v)
        _post_load(w, s, rest, refs, 0)


# ---- uintN / intN ------------------------------------------------------------------------------------------------

@obligation('C06.store_uint', 'C06', cases=WIDTHS, fuc=[B + 'store_uint'] + TVM, inlined=['bitarray.util.int2ba (model T1)'],
            descr='store_uint(v,n) for all v (incl. out of range) at every fill level p: two-sided contract')
def store_uint(w, n):
    b, pre, refs = _pre(w)
    v = w.int('v')
    out = call(b.store_uint, v, n)
    check_store(w, b, pre, refs, out, E.uint(v, n), [], w.Not(E.fits_uint(v, n)))


@obligation('C06.store_int', 'C06', cases=WIDTHS, fuc=[B + 'store_int'] + TVM,
            descr='store_int(v,n): two\'s complement big-endian; two-sided contract')
def store_int(w, n):
    b, pre, refs = _pre(w)
    v = w.int('v')
    out = call(b.store_int, v, n)
    check_store(w, b, pre, refs, out, E.int_(v, n), [], w.Not(E.fits_int(v, n)))


@obligation('C06.load_uint', 'C06', cases=WIDTHS, fuc=[S + 'load_uint', S + 'preload_uint'] + TVM,
            descr='load/preload_uint(n) on enc_uint(v,n) ++ R returns v, leaves R / nothing consumed')
def load_uint(w, n):
    v = w.int('v', 0, (1 << n) - 1)
    _roundtrip(w, E.uint(v, n), lambda s: s.load_uint(n), lambda s: s.preload_uint(n), v)


@obligation('C06.load_int', 'C06', cases=WIDTHS, fuc=[S + 'load_int', S + 'preload_int'] + TVM,
            descr='load/preload_int(n) on enc_int(v,n) ++ R returns v')
def load_int(w, n):
    v = w.int('v', -(1 << (n - 1)), (1 << (n - 1)) - 1)
    _roundtrip(w, E.int_(v, n), lambda s: s.load_int(n), lambda s: s.preload_int(n), v)


# ---- variable-length integers ---------------------------------------------------------------------------------

VAR_CASES = [{'lbits': lb, 'L': L} for lb in (2, 3, 4, 5) for L in range(0, (1 << lb))]
VAR_CASES_OVER = [{'lbits': lb, 'L': (1 << lb)} for lb in (2, 3, 4, 5)]


def _class_uint(w, L):
    if L == 0:
        v = w.int('v', 0, 0)
    else:
        v = w.int('v', 1 << (8 * (L - 1)), (1 << (8 * L)) - 1)
    return v


def _class_int(w, L):
    """values whose MINIMAL signed byte length is L"""
    if L == 0:
        return w.int('v', 0, 0)
    v = w.int('v', -(1 << (8 * L - 1)), (1 << (8 * L - 1)) - 1)
    if L == 1:
        w.assume(v != 0)
    else:
        w.assume(w.Not(E.fits_int(v, 8 * (L - 1))))
    return v


@obligation('C06.store_var_uint', 'C06', cases=VAR_CASES + VAR_CASES_OVER,
            fuc=[B + 'store_var_uint', B + 'store_coins', B + 'store_uint'] + TVM,
            descr='VarUInteger: len (lbits bits, minimal byte length L) then uint(8L); every byte-length class L, '
                  'including L = 2^lbits (must be refused); store_coins is lbits=4')
def store_var_uint(w, lbits, L):
    b, pre, refs = _pre(w)
    v = _class_uint(w, L)
    fits = L < (1 << lbits)
    if lbits == 4 and w.choice('via', ['var_uint', 'coins']) == 'coins':
        out = call(b.store_coins, v)
    else:
        out = call(b.store_var_uint, v, lbits)
    enc = E.var_uint(v, L, lbits) if fits else Seq.from_int(0, lbits + 8 * L)
    check_store(w, b, pre, refs, out, enc, [], not fits)


@obligation('C06.store_var_uint.negative', 'C06', cases=[{'lbits': lb} for lb in (2, 3, 4, 5)],
            fuc=[B + 'store_var_uint'], descr='negative values (down to -2^270, beyond any cell capacity) are not representable as VarUInteger: must be refused')
def store_var_uint_neg(w, lbits):
    b, pre, refs = _pre(w)
    v = w.int('v', -(1 << 270), -1)
    out = call(b.store_var_uint, v, lbits)
    w.claim('negative VarUInteger refused', out[0] == 'raise' and is_error(out[1]))


@obligation('C06.store_var_int', 'C06', cases=VAR_CASES + VAR_CASES_OVER, fuc=[B + 'store_var_int', B + 'store_int'] + TVM,
            descr='VarInteger: minimal SIGNED byte length L (values whose top bit is set need one more byte than '
                  'ceil(bit_length/8)); every class L')
def store_var_int(w, lbits, L):
    b, pre, refs = _pre(w)
    v = _class_int(w, L)
    fits = L < (1 << lbits)
    out = call(b.store_var_int, v, lbits)
    enc = E.var_int(v, L, lbits) if fits else Seq.from_int(0, lbits + 8 * L)
    check_store(w, b, pre, refs, out, enc, [], not fits)


@obligation('C06.load_var_uint', 'C06', cases=VAR_CASES,
            fuc=[S + 'load_var_uint', S + 'preload_var_uint', S + 'load_coins', S + 'preload_coins'] + TVM,
            descr='load/preload_var_uint and load/preload_coins on the spec encoding of every byte-length class')
def load_var_uint(w, lbits, L):
    v = _class_uint(w, L)
    if lbits == 4 and w.choice('via', ['var_uint', 'coins']) == 'coins':
        _roundtrip(w, E.var_uint(v, L, lbits), lambda s: s.load_coins(), lambda s: s.preload_coins(), v)
    else:
        _roundtrip(w, E.var_uint(v, L, lbits), lambda s: s.load_var_uint(lbits), lambda s: s.preload_var_uint(lbits), v)


@obligation('C06.load_var_int', 'C06', cases=VAR_CASES, fuc=[S + 'load_var_int', S + 'preload_var_int'] + TVM,
            descr='load/preload_var_int on the spec encoding of every signed byte-length class')
def load_var_int(w, lbits, L):
    v = _class_int(w, L)
    _roundtrip(w, E.var_int(v, L, lbits), lambda s: s.load_var_int(lbits), lambda s: s.preload_var_int(lbits), v)


# ---- bits / bool / bytes / string -------------------------------------------------------------------------------

@obligation('C06.store_bit', 'C06', cases=[{'form': f} for f in ('bit_int', 'bool', 'bit:int', 'bit:str', 'bit:bits')],
            fuc=[B + 'store_bit', B + 'store_bit_int', B + 'store_bool'] + TVM,
            descr='single-bit stores in every accepted argument form')
def store_bit(w, form):
    from pytoniq_core.boc.tvm_bitarray import TvmBitarray
    b, pre, refs = _pre(w)
    x = w.int('x', 0, 1)
    if form == 'bit_int':
        out = call(b.store_bit_int, x)
    elif form == 'bool':
        out = call(b.store_bool, x == 1)
    elif form == 'bit:int':
        out = call(b.store_bit, x)
    elif form == 'bit:str':
        k = w.choice('xs', [0, 1])
        w.assume(x == k)
        out = call(b.store_bit, str(k))
    else:
        k = w.int('k', 1, 16)
        src = w.mk_bitarray(TvmBitarray, E.uint(x, 1) + w.bits('tail', k - 1), 1023)
        out = call(b.store_bit, src)
    check_store(w, b, pre, refs, out, E.uint(x, 1), [], False)


@obligation('C06.store_bits', 'C06', cases=[{'form': f} for f in ('bitarray', 'str', 'list')],
            fuc=[B + 'store_bits'] + TVM, descr='store_bits of a bit string of any length (symbolic length for arrays)')
def store_bits(w, form):
    from pytoniq_core.boc.tvm_bitarray import TvmBitarray
    b, pre, refs = _pre(w)
    if form == 'bitarray':
        k = w.int('k', 0, 1023)
        data = w.bits('D', k)
        out = call(b.store_bits, w.mk_bitarray(TvmBitarray, data, 1023))
    else:
        k = w.choice('k', [0, 1, 5, 8, 13])
        data = w.bits('D', k)
        if w.symbolic and form == 'str':
            # text form: enumerate the text (finite: k <= 3 here is exhaustive, longer ones by value fork)
            k = w.choice('k3', [0, 1, 2, 3])
            val = w.choice('val', list(range(1 << k))) if k else 0
            txt = format(val, f'0{k}b') if k else ''
            data = Seq.from_01(txt)
            out = call(b.store_bits, txt)
        elif form == 'str':
            n = data.length()
            txt = format(data.value(), f'0{n}b') if n else ''
            out = call(b.store_bits, txt)
        else:
            lst = [w.int(f'b{i}', 0, 1) for i in range(k)]
            data = Seq()
            for x in lst:
                data = data + E.uint(x, 1)
            out = call(b.store_bits, lst)
    check_store(w, b, pre, refs, out, data, [], False)


@obligation('C06.load_bits', 'C06', cases=[{'n': n} for n in (0, 1, 2, 7, 8, 9, 64, 255, 256, 257, 1022, 1023)],
            fuc=[S + 'load_bits', S + 'preload_bits', S + 'skip_bits', S + 'load_bit', S + 'preload_bit', S + 'load_bool',
                 S + 'preload_bool'] + TVM,
            descr='load/preload/skip of n bits, load_bit/load_bool for n=1')
def load_bits(w, n):
    data = w.bits('D', n)

    def eq(got, v):
        return w.eq_seq(w.seq_of(got), data)
    _roundtrip(w, data, lambda s: s.load_bits(n), lambda s: s.preload_bits(n), data, eq)
    s, rest, refs = _slice_with(w, data)
    k, got = call(s.skip_bits, n)
    w.claim('skip does not raise', k == 'ok')
    if k == 'ok':
        w.claim('skip returns the slice', got is s)
        _post_load(w, s, rest, refs, 0, 'skip: ')
    if n == 1:
        v = w.val(data)
        _roundtrip(w, data, lambda s: s.load_bit(), lambda s: s.preload_bit(), v)
        _roundtrip(w, data, lambda s: s.load_bool(), lambda s: s.preload_bool(), v,
                   lambda g, x: w.And(w.Implies(g, x == 1), w.Implies(x == 1, g), isinstance(g, bool)))


@obligation('C06.bytes', 'C06', cases=[{'k': k} for k in (0, 1, 2, 31, 32, 64, 127)],
            fuc=[B + 'store_bytes', S + 'load_bytes', S + 'preload_bytes'] + TVM,
            descr='store_bytes / load_bytes / preload_bytes of k bytes (contents symbolic)')
def bytes_(w, k):
    b, pre, refs = _pre(w)
    data = w.bytes('D', k)
    seq = w.bytes_seq(data)
    out = call(b.store_bytes, data)
    check_store(w, b, pre, refs, out, seq, [], False)
    _roundtrip(w, seq, lambda s: s.load_bytes(k), lambda s: s.preload_bytes(k), data)


@obligation('C06.string', 'C06', cases=[{'k': k} for k in (0, 1, 5, 127)] + [{'k': 128}],
            fuc=[B + 'store_string', S + 'load_string', S + 'preload_string'],
            assumes=['T2: str.encode()/bytes.decode() are an inverse pair on valid UTF-8 (text modelled by its UTF-8 bytes)'],
            descr='store_string of a text of k UTF-8 bytes (<=127 accepted, more refused by assertion); '
                  'load_string(k) and load_string(0)=all remaining whole bytes')
def string(w, k):
    b, pre, refs = _pre(w)
    raw = w.bytes('D', k)
    if w.symbolic:
        from vf.shims import SymText
        txt = SymText(raw) if type(raw) is not bytes else raw.decode('latin1')
    else:
        raw = bytes((x % 95) + 32 for x in raw)      # printable ASCII: valid UTF-8
        txt = raw.decode()
    seq = w.bytes_seq(raw)
    try:
        out = call(b.store_string, txt)
    except AssertionError as e:
        out = ('raise', ValueError(str(e)))
    if k > 127:
        w.claim('strings over 127 bytes are refused by store_string', out[0] == 'raise')
        return
    if out[0] == 'raise' and isinstance(out[1], AssertionError):
        out = ('raise', ValueError('assert'))
    check_store(w, b, pre, refs, out, seq, [], False)
    if k:
        _roundtrip(w, seq, lambda s: s.load_string(k), lambda s: s.preload_string(k), txt)
    # byte_length 0 = everything that remains (whole bytes)
    s = mk_slice(w, seq, [])
    kk, got = call(s.preload_string)
    w.claim('preload_string() returns all remaining bytes', w.And(kk == 'ok', got == txt))
    w.claim('preload_string() consumes nothing', w.eq_seq(bits_of(w, s), seq))
    kk, got = call(s.load_string)
    w.claim('load_string() reads all remaining bytes', w.And(kk == 'ok', got == txt))
    w.claim('load_string() leaves nothing', w.eq_seq(bits_of(w, s), Seq()))


# ---- references ---------------------------------------------------------------------------------------------------

@obligation('C06.refs', 'C06', cases=[{'q': q, 'op': op} for q in range(5) for op in ('ref', 'maybe:none', 'maybe:cell', 'dict:none', 'dict:cell')],
            fuc=[B + 'store_ref', B + 'store_maybe_ref', B + 'store_dict', S + 'load_ref', S + 'load_maybe_ref',
                 S + 'preload_ref', S + 'preload_maybe_ref'],
            descr='store_ref / store_maybe_ref / store_dict at every reference fill level q, and the matching loads')
def refs(w, q, op):
    b, pre, refs_ = _pre(w, q)
    c = Child('new')
    if op == 'ref':
        out = call(b.store_ref, c)
        check_store(w, b, pre, refs_, out, Seq(), [c], False)
    elif op.endswith('none'):
        out = call(b.store_maybe_ref if op.startswith('maybe') else b.store_dict, None)
        check_store(w, b, pre, refs_, out, E.lit('0'), [], False)
    else:
        out = call(b.store_maybe_ref if op.startswith('maybe') else b.store_dict, c)
        check_store(w, b, pre, refs_, out, E.lit('1'), [c], False)
    # loads: slice with q-? refs already consumed
    if q == 0:
        return
    off = w.choice('off', list(range(q)))
    r = w.int('r', 0, 1022)
    rest = w.bits('R', r)
    kids = [Child(i) for i in range(q)]
    if op == 'ref':
        s = mk_slice(w, rest, kids, ref_offset=off)
        k, got = call(s.preload_ref)
        w.claim('preload_ref returns next ref', k == 'ok' and got is kids[off] and s.ref_offset == off)
        for ahead in range(0, q - off):
            k, got = call(s.preload_ref, ahead)
            w.claim(f'preload_ref({ahead}) returns the reference {ahead} after the cursor', k == 'ok' and got is kids[off + ahead] and s.ref_offset == off)
        k, got = call(s.load_ref)
        w.claim('load_ref returns next ref', k == 'ok' and got is kids[off] and s.ref_offset == off + 1)
        w.claim('load_ref leaves bits', w.eq_seq(bits_of(w, s), rest))
    else:
        present = op.endswith('cell')
        s = mk_slice(w, E.lit('1' if present else '0') + rest, kids, ref_offset=off)
        k, got = call(s.preload_maybe_ref)
        w.claim('preload_maybe_ref', k == 'ok' and (got is kids[off] if present else got is None) and s.ref_offset == off)
        k, got = call(s.load_maybe_ref)
        w.claim('load_maybe_ref', k == 'ok' and (got is kids[off] if present else got is None)
                and s.ref_offset == off + (1 if present else 0))
        w.claim('load_maybe_ref leaves rest', w.eq_seq(bits_of(w, s), rest))


# ---- addresses ----------------------------------------------------------------------------------------------------

def _addr_eq(w, got, wc, hp, anycast):
    from pytoniq_core.boc.address import Address
    if not isinstance(got, Address):
        return False
    ok = w.And(got.wc == wc, got.hash_part == hp)
    if anycast is None:
        return w.And(ok, got.anycast is None)
    if got.anycast is None:
        return False
    return w.And(ok, got.anycast.depth == anycast[0], got.anycast.rewrite_pfx == anycast[1])


ADDR_CASES = [{'kind': 'none'}, {'kind': 'std'}] + \
             [{'kind': f'anycast{d}'} for d in (1, 2, 5, 17, 30)] + \
             [{'kind': f'extern{n}'} for n in (0, 1, 8, 9, 255, 256, 511)]


@obligation('C06.address', 'C06', cases=ADDR_CASES,
            fuc=[B + 'store_address', S + 'load_address', S + 'preload_address', 'pytoniq_core.boc.address.Address.__init__',
                 'pytoniq_core.boc.address.Address.set_anycast', 'pytoniq_core.boc.address.ExternalAddress.to_cell',
                 B + 'store_cell', B + 'store_bits', B + 'store_int', B + 'store_bytes'],
            descr='addr_none$00 / addr_extern$01 len:9 bits / addr_std$10 anycast:(Maybe Anycast) int8 bits256: store writes '
                  'exactly the schema encoding; load and preload return the stored address (all forms)')
def address(w, kind):
    from pytoniq_core.boc.address import Address, ExternalAddress
    b, pre, refs_ = _pre(w)
    anycast = None
    if kind == 'none':
        a, enc = None, E.addr_none()

        def eq(got, v):
            return got is None
    elif kind.startswith('extern'):
        n = int(kind[6:])
        v = w.int('v', 0, (1 << n) - 1) if n else 0
        a = ExternalAddress(v, n)
        enc = E.addr_extern(n, v)

        def eq(got, _):
            return isinstance(got, ExternalAddress) and w.And(got.external_address == v, got.len == n)
    else:
        wc = w.int('wc', -128, 127)
        hp = w.bytes('hash', 32)
        a = Address((wc, hp))
        if kind.startswith('anycast'):
            d = int(kind[7:])
            pfx = w.int('pfx', 0, (1 << d) - 1)
            a.set_anycast(d, pfx)
            anycast = (d, pfx)
        enc = E.addr_std(wc, w.bytes_seq(hp), anycast)
        if kind == 'std-str':
            a = a.to_str()

        def eq(got, _):
            return _addr_eq(w, got, wc, hp, anycast)
    out = call(b.store_address, a)
    check_store(w, b, pre, refs_, out, enc, [], False)
    _roundtrip(w, enc, lambda s: s.load_address(), lambda s: s.preload_address(), a, eq)


@obligation('C06.address.text', 'C06', kind='bounded', samples=150, fuc=[B + 'store_address'],
            descr='bounded: store_address given the TEXT form of an address (parsing of the text is C13\'s contract): '
                  'random addresses, native')
def address_text(w):
    address.__wrapped__(w, 'std-str') if hasattr(address, '__wrapped__') else address(w, 'std-str')


# ---- snake data ---------------------------------------------------------------------------------------------------

SNAKE = [{'n': n, 'p8': p8} for n in (0, 1, 126, 127, 128, 254, 255, 381, 400) for p8 in (0, 1, 127)]


@obligation('C06.snake', 'C06', cases=SNAKE,
            fuc=[B + 'store_snake_bytes', B + 'store_snake_string', S + 'load_snake_bytes', S + 'load_snake_string',
                 B + 'end_cell', 'pytoniq_core.boc.cell.Cell.begin_parse', B + 'available_bytes'],
            descr='BOUNDED in length (contents symbolic): snake chains for byte lengths around every cell boundary, '
                  'starting from a builder already holding p8 bytes: chain layout = min(len, room) bytes per cell + one '
                  'ref; load_snake_bytes returns the value')
def snake(w, n, p8):
    from pytoniq_core.boc.builder import Builder
    data = w.bytes('D', n)
    b = Builder()
    prefix = w.bytes('P', p8)
    b.store_bytes(prefix)
    k, got = call(b.store_snake_bytes, data)
    w.claim('store_snake_bytes never refuses', k == 'ok' and got is b)
    if k != 'ok':
        return
    # layout: walk the chain
    room = 127 - p8
    cur_bits, cur_refs = bits_of(w, b), b.refs
    rest = w.bytes_seq(data)
    first = True
    ok_layout = True
    depth = 0
    while True:
        take = min(rest.length() // 8, room)
        head, rest = rest.take_front(8 * take)
        want = (w.bytes_seq(prefix) + head) if first else head
        w.claim(f'cell {depth}: holds min(len, room) bytes', w.eq_seq(cur_bits, want))
        if rest.length() == 0:
            w.claim(f'cell {depth}: last cell has no ref', len(cur_refs) == 0)
            break
        w.claim(f'cell {depth}: exactly one continuation ref', len(cur_refs) == 1)
        if len(cur_refs) != 1:
            break
        cur_bits, cur_refs = w.seq_of(cur_refs[0].bits), cur_refs[0].refs
        first = False
        room = 127
        depth += 1
    s = b.end_cell().begin_parse()
    if p8:
        s.load_bytes(p8)
    k, got = call(s.load_snake_bytes)
    w.claim('load_snake_bytes returns the value', w.And(k == 'ok', got == data))


@obligation('C06.snake_string', 'C06', cases=[{'n': n, 'prefix': p} for n in (0, 3, 126, 127, 128, 300) for p in (False, True)],
            fuc=[B + 'store_snake_string', B + 'store_snake_bytes', S + 'load_snake_string', S + 'load_snake_bytes'],
            assumes=['T2: str.encode()/bytes.decode() are an inverse pair on valid UTF-8 (text modelled by its UTF-8 bytes)'],
            descr='store_snake_string(text, need_prefix) writes exactly what store_snake_bytes writes for the UTF-8 bytes of the text, '
                  'preceded by one zero byte when a prefix is asked for; load_snake_string returns the stored text (with that byte)')
def snake_string(w, n, prefix):
    from pytoniq_core.boc.builder import Builder
    raw = w.bytes('D', n)
    if w.symbolic:
        from vf.shims import SymText
        txt = SymText(raw) if type(raw) is not bytes else raw.decode('latin1')
    else:
        raw = bytes((x % 95) + 32 for x in raw)
        txt = raw.decode()
    k, b1 = call(Builder().store_snake_string, txt, prefix)
    w.claim(f'store_snake_string does not raise ({b1 if k != "ok" else ""})', k == 'ok')
    if k != 'ok':
        return
    b2 = Builder().store_snake_bytes((b'\x00' + raw) if prefix else raw)
    x, y = b1, b2
    depth = 0
    while True:
        w.claim(f'cell {depth}: same bits as store_snake_bytes of the (prefixed) UTF-8 bytes', w.eq_seq(bits_of(w, x), bits_of(w, y)))
        w.claim(f'cell {depth}: same number of references', len(x.refs) == len(y.refs))
        if len(x.refs) != len(y.refs) or not x.refs:
            break
        x, y = x.refs[0], y.refs[0]
        depth += 1
    k2, got = call(b1.end_cell().begin_parse().load_snake_bytes)
    w.claim('load_snake_bytes returns the stored bytes', w.And(k2 == 'ok', got == ((b'\x00' + raw) if prefix else raw)))
