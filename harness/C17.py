"""C17 — TVM stack values round-trip; serialising does not consume them.

Per value kind and per chaining shape: the real serialiser emits exactly the block.tlb encoding (vf/spec/vmstack.py) and
the real parser inverts every such encoding, for SYMBOLIC integers over the whole 257-bit range, symbolic slice/builder
contents and abstract cells; the chaining recursions (stack list, tuples) are proved per length class with the recursive
call replaced by a recording stub (modular step) and additionally executed for lengths 0..4.  Frames: the caller's
lists, tuples and slices are untouched, so serialising twice gives the same cell.
"""
import importlib
from vf.engine import obligation
from vf.spec import vmstack as SV, enc as E
from vf.bits import Seq
from harness.common import call, is_error, same_objects, bits_of, mk_slice
from harness.common import abstract_cell as _abstract_cell


def abstract_cell(w, name):
    c = _abstract_cell(w, name)
    w.assume(c._depths[0] <= 1000)
    return c


V = 'pytoniq_core.tlb.vm_stack.'
KF = ('known finding: VmControlData / VmSaveList (vmc_std, vmc_envelope) serialise a Cell / HashMap but parse a list / dict, '
      'and absent optional fields become missing attributes; these two continuation kinds are outside the discharged set')


def _M():
    return importlib.import_module('pytoniq_core.tlb.vm_stack')


def _int_case(w, cls_):
    """integer of a magnitude class: 'tiny' = fits int64, 'big+' / 'big-' = outside, within 257 bits"""
    if cls_ == 'tiny':
        return w.int('v', -(1 << 63), (1 << 63) - 1)
    if cls_ == 'big+':
        return w.int('v', 1 << 63, (1 << 256) - 1)
    return w.int('v', -(1 << 256), -(1 << 63) - 1)


def _mk_value(w, kind, name='x'):
    """returns (library value, spec value, tiny flag, equality check on a parsed value)"""
    M = _M()
    from pytoniq_core.boc.builder import Builder
    from pytoniq_core.boc.cell import Cell
    from pytoniq_core.boc.slice import Slice
    if kind == 'null':
        return None, ('null',), None, lambda g: g is None
    if kind.startswith('int:'):
        v = _int_case(w, kind[4:])
        return v, ('int', v), kind[4:] == 'tiny', lambda g: w.And(isinstance(g, int), g == v)
    if kind == 'cell':
        c = abstract_cell(w, name + '.cell')
        return c, ('cell', c), None, lambda g: g is c
    if kind in ('slice', 'builder'):
        n = w.choice(name + '.len', [0, 1, 267, 1023])
        bits = w.bits(name + '.bits', n)
        kids = [abstract_cell(w, f'{name}.k{i}') for i in range(w.choice(name + '.nrefs', [0, 2]))]
        for kd in kids:
            w.assume(kd._depths[0] <= 1000)
        if kind == 'slice':
            s = mk_slice(w, bits, kids)
            return s, ('slice', bits, kids), None, lambda g: isinstance(g, Slice) and w.And(
                w.eq_seq(bits_of(w, g), bits), same_objects(g.refs[g.ref_offset:], kids))
        from harness.common import mk_builder
        b, _ = mk_builder(w, None, kids)
        from pytoniq_core.boc.tvm_bitarray import TvmBitarray
        b._bits = w.mk_bitarray(TvmBitarray, bits, 1023)
        return b, ('builder', bits, kids), None, lambda g: isinstance(g, Builder) and w.And(
            w.eq_seq(bits_of(w, g), bits), same_objects(g.refs, kids))
    raise ValueError(kind)


KINDS = ['null', 'int:tiny', 'int:big+', 'int:big-', 'cell', 'slice', 'builder']


@obligation('C17.value', 'C17', cases=[{'kind': k} for k in KINDS],
            fuc=[V + 'VmStackValue.serialize', V + 'VmStackValue.deserialize', V + 'VmCellSlice.serialize', V + 'VmCellSlice.deserialize'],
            descr='per value kind (null, integers of every magnitude class over the whole 257-bit range, cell, slice, builder): '
                  'serialize == block.tlb encoding (tinyint#01 int64 iff the value fits int64, else int#0201_ int257), and '
                  'deserialize(encoding ++ rest) returns an equal value and leaves the rest; the caller\'s value is untouched')
def value(w, kind):
    M = _M()
    v, sv, tiny, eq = _mk_value(w, kind)
    node = SV.value(w, sv, tiny)
    before = (bits_of(w, v), list(v.refs), getattr(v, 'ref_offset', 0)) if kind in ('slice', 'builder') else None
    k, c = call(M.VmStackValue.serialize, v)
    w.claim(f'serialize does not raise ({c if k != "ok" else ""})', k == 'ok')
    if k == 'ok':
        w.claim('serialize == schema encoding', SV.matches(w, c, node))
        k2, c2 = call(M.VmStackValue.serialize, v)
        w.claim('serialising twice gives the same cell', k2 == 'ok' and c2.hash == c.hash)
    if before:
        w.claim('caller\'s slice/builder untouched', w.And(w.eq_seq(bits_of(w, v), before[0]), same_objects(v.refs, before[1]),
                                                          getattr(v, 'ref_offset', 0) == before[2]))
    # parse side: the specification encoding followed by other data
    r = w.int('r', 0, 200)
    rest = w.bits('R', r)
    cell = SV.build(w, SV.Node(node.bits + rest, node.refs + [SV.Raw(abstract_cell(w, 'tailref'))]))
    s = cell.begin_parse()
    k3, g = call(M.VmStackValue.deserialize, s)
    w.claim(f'deserialize does not raise ({g if k3 != "ok" else ""})', k3 == 'ok')
    if k3 == 'ok':
        w.claim('deserialize returns an equal value', eq(g))
        w.claim('leaves exactly the rest', w.And(w.eq_seq(bits_of(w, s), rest), len(s.refs) - s.ref_offset == 1))


@obligation('C17.nan', 'C17', fuc=[V + 'VmStackValue.deserialize'], descr='vm_stk_nan#02ff parses (to None) and consumes 16 bits')
def nan(w):
    M = _M()
    rest = w.bits('R', w.int('r', 0, 100))
    s = SV.build(w, SV.Node(E.lit('0000001011111111') + rest)).begin_parse()
    k, g = call(M.VmStackValue.deserialize, s)
    w.claim('parses', k == 'ok' and g is None)
    w.claim('consumes the tag', w.eq_seq(bits_of(w, s), rest))


def _ints(w, n, classes):
    vals, spec, tiny = [], [], []
    for i in range(n):
        cl = classes[i % len(classes)]
        if cl == 'tiny':
            v = w.int(f'v{i}', -(1 << 63), (1 << 63) - 1)
        else:
            v = w.int(f'v{i}', 1 << 63, (1 << 256) - 1)
        vals.append(v), spec.append(('int', v)), tiny.append(cl == 'tiny')
    return vals, spec, tiny


@obligation('C17.tuple', 'C17', cases=[{'n': n} for n in range(0, 6)],
            fuc=[V + 'VmTuple.serialize', V + 'VmTuple.deserialize', V + 'VmTupleRef.serialize', V + 'VmTupleRef.deserialize',
                 V + 'VmStackValue.serialize', V + 'VmStackValue.deserialize'],
            descr='tuples of length 0..5 (elements: symbolic integers of both forms; for n >= 2 one nested tuple): serialize == schema '
                  'chaining (vm_tuple_tcons / vm_tupref_nil|single|any), deserialize inverts it; the caller\'s tuple (and nested ones) '
                  'keep their elements; serialising twice gives the same cell')
def tuple_(w, n):
    M = _M()
    vals, spec, tiny = _ints(w, n, ['tiny', 'big'])
    inner = None
    if n >= 2:
        iv = [w.int('n0', -5, 5), w.int('n1', 1 << 70, 1 << 71)]
        inner = M.VmTuple(list(iv))
        vals[0], spec[0], tiny[0] = inner, ('tuple', [('int', iv[0]), ('int', iv[1])], [True, False]), None
    t = M.VmTuple(list(vals))
    node = SV.value(w, ('tuple', spec, tiny))
    k, c = call(M.VmStackValue.serialize, t)
    w.claim(f'serialize does not raise ({c if k != "ok" else ""})', k == 'ok')
    w.claim('caller\'s tuple keeps its elements', len(t.list) == n and all(a is b for a, b in zip(t.list, vals)))
    if inner is not None:
        w.claim('nested tuple keeps its elements', len(inner.list) == 2)
    if k != 'ok':
        return
    w.claim('serialize == schema encoding', SV.matches(w, c, node))
    k2, c2 = call(M.VmStackValue.serialize, t)
    w.claim('serialising twice gives the same cell', k2 == 'ok' and c2.hash == c.hash)
    s = SV.build(w, node).begin_parse()
    k3, g = call(M.VmStackValue.deserialize, s)
    w.claim(f'deserialize does not raise ({g if k3 != "ok" else ""})', k3 == 'ok')
    if k3 == 'ok':
        ok = isinstance(g, M.VmTuple) and len(g.list) == n
        w.claim('a tuple of the same length', ok)
        if ok:
            for i in range(n):
                if i == 0 and inner is not None:
                    gi = g.list[0]
                    w.claim('nested tuple equal', isinstance(gi, M.VmTuple) and len(gi.list) == 2 and
                            w.And(gi.list[0] == iv[0], gi.list[1] == iv[1]))
                else:
                    w.claim(f'element {i} equal', g.list[i] == vals[i])
        w.claim('nothing left unread', w.And(w.eq_seq(bits_of(w, s), Seq()), s.ref_offset == len(s.refs)))
    # no state is carried between parses: parsing the same encoding again gives an equal, independent tuple
    k4, g2 = call(M.VmStackValue.deserialize, SV.build(w, node).begin_parse())
    ok2 = k4 == 'ok' and isinstance(g2, M.VmTuple) and len(g2.list) == n
    w.claim('a second parse gives a tuple of the same length (no state carried between calls)', ok2)
    if ok2 and k3 == 'ok':
        w.claim('the two parsed tuples do not share their element lists', g2.list is not g.list)


@obligation('C17.reserialize', 'C17', cases=[{'how': h} for h in ('append_inner', 'pop_inner', 'set_inner', 'append_outer', 'set_outer', 'set_stack')],
            fuc=[V + 'VmStack.serialize', V + 'VmStackList.serialize', V + 'VmTuple.serialize', V + 'VmTupleRef.serialize', V + 'VmStackValue.serialize'],
            descr='history independence of serialising: a stack [x, (v0, (a, b), v2)] is serialised, then one value is changed in place '
                  '(an element appended to / popped from / replaced in the NESTED tuple, the outer tuple, or the stack list) and the '
                  'same objects are serialised again: the second cell is the schema encoding of the stack as it is THEN (an encoding '
                  'remembered on a tuple object and not invalidated by a change further down would show here); values symbolic')
def reserialize(w, how):
    M = _M()
    a, b, extra = w.int('a', -5, 5), w.int('b', 1 << 70, 1 << 71), w.int('extra', -(1 << 63), (1 << 63) - 1)
    v0, v2, x = w.int('v0', -(1 << 63), (1 << 63) - 1), w.int('v2', 1 << 63, (1 << 256) - 1), w.int('x', -(1 << 63), (1 << 63) - 1)
    inner = M.VmTuple([a, b])
    outer = M.VmTuple([v0, inner, v2])
    lst = [x, outer]

    def spec_of(inner_items, outer_rest, stack_first):
        isp = ('tuple', [('int', i) for i, _ in inner_items], [t for _, t in inner_items])
        osp = ('tuple', [('int', outer_rest[0][0]), isp] + [('int', i) for i, _ in outer_rest[1:]], [outer_rest[0][1], None] + [t for _, t in outer_rest[1:]])
        return SV.stack(w, [('int', stack_first), osp], [True, None])
    k, c = call(M.VmStack.serialize, lst)
    w.claim(f'first serialisation does not raise ({c if k != "ok" else ""})', k == 'ok')
    if k != 'ok':
        return
    w.claim('first serialisation == schema encoding', SV.matches(w, c, spec_of([(a, True), (b, False)], [(v0, True), (v2, False)], x)))
    ii, oo, sf = [(a, True), (b, False)], [(v0, True), (v2, False)], x
    if how == 'append_inner':
        inner.append(extra); ii = ii + [(extra, True)]
    elif how == 'pop_inner':
        inner.pop(); ii = ii[:1]
    elif how == 'set_inner':
        inner.list[0] = extra; ii = [(extra, True), ii[1]]
    elif how == 'append_outer':
        outer.append(extra); oo = oo + [(extra, True)]
    elif how == 'set_outer':
        outer.list[0] = extra; oo = [(extra, True), oo[1]]
    else:
        lst[0] = extra; sf = extra
    k2, c2 = call(M.VmStack.serialize, lst)
    w.claim(f'second serialisation does not raise ({c2 if k2 != "ok" else ""})', k2 == 'ok')
    if k2 == 'ok':
        w.claim('second serialisation == schema encoding of the changed stack', SV.matches(w, c2, spec_of(ii, oo, sf)))


@obligation('C17.stack', 'C17', cases=[{'n': n} for n in range(0, 5)],
            fuc=[V + 'VmStack.serialize', V + 'VmStack.deserialize', V + 'VmStackList.serialize', V + 'VmStackList.deserialize'],
            descr='stacks of depth 0..4 (symbolic integers of both forms, a cell, a null): serialize == vm_stack#_ depth:24 + '
                  'vm_stk_cons chain (rest in the first reference, top of stack inline); deserialize returns equal values in the '
                  'same order; the caller\'s list is untouched; serialising twice gives the same cell')
def stack(w, n):
    M = _M()
    vals, spec, tiny = _ints(w, n, ['big', 'tiny'])
    if n >= 3:
        c0 = abstract_cell(w, 'cellval')
        vals[1], spec[1], tiny[1] = c0, ('cell', c0), None
    if n >= 4:
        vals[2], spec[2], tiny[2] = None, ('null',), None
    lst = list(vals)
    node = SV.stack(w, spec, tiny)
    k, c = call(M.VmStack.serialize, lst)
    w.claim(f'serialize does not raise ({c if k != "ok" else ""})', k == 'ok')
    w.claim('caller\'s list untouched', len(lst) == n and all(a is b for a, b in zip(lst, vals)))
    if k != 'ok':
        return
    w.claim('serialize == schema encoding', SV.matches(w, c, node))
    k2, c2 = call(M.VmStack.serialize, lst)
    w.claim('serialising twice gives the same cell', k2 == 'ok' and c2.hash == c.hash)
    s = SV.build(w, node).begin_parse()
    k3, g = call(M.VmStack.deserialize, s)
    w.claim(f'deserialize does not raise ({g if k3 != "ok" else ""})', k3 == 'ok')
    if k3 == 'ok':
        w.claim('same depth', len(g) == n)
        for i in range(min(n, len(g))):
            if spec[i][0] == 'int':
                w.claim(f'value {i} equal', g[i] == vals[i])
            elif spec[i][0] == 'cell':
                w.claim(f'value {i} is the cell', g[i] is vals[i])
            else:
                w.claim(f'value {i} is null', g[i] is None)


@obligation('C17.stack.step', 'C17', fuc=[V + 'VmStackList.serialize', V + 'VmStackList.deserialize'],
            descr='UNBOUNDED depth, modular: VmStackList.serialize of a non-empty list with the recursive call replaced by a recording '
                  'stub stores reference(serialize(all but the last)) then the last value inline; deserialize(n+1) reads reference 0 '
                  'as VmStackList n and appends the inline value (induction over the depth)')
def stack_step(w):
    M = _M()
    from pytoniq_core.boc.builder import Builder
    from pytoniq_core.boc.cell import Cell
    v = w.int('v', -(1 << 63), (1 << 63) - 1)
    others = ['a', 'b', 'c']
    marker = Builder().store_uint(0xABC, 12).end_cell()
    calls = []
    real = M.VmStackList.__dict__['serialize'].__func__
    real_d = M.VmStackList.__dict__['deserialize'].__func__

    def rec(data):
        calls.append(list(data))
        return marker
    M.VmStackList.serialize = rec
    try:
        k, c = call(real, M.VmStackList, others + [v])
    finally:
        M.VmStackList.serialize = classmethod(real)
    w.claim('does not raise', k == 'ok')
    if k == 'ok':
        w.claim('one recursive call on all but the last value', calls == [others])
        w.claim('reference 0 = the rest, value inline', SV.matches(w, c, SV.Node(E.lit('00000001') + E.int_(v, 64), [SV.Raw(marker)])))
    dcalls = []

    def recd(cs, n):
        dcalls.append((cs, n))
        return ['x', 'y']
    n = w.int('n', 1, (1 << 24) - 1)
    s = SV.build(w, SV.Node(E.lit('00000001') + E.int_(v, 64), [SV.Raw(marker)])).begin_parse()
    M.VmStackList.deserialize = recd
    try:
        k2, g = call(real_d, M.VmStackList, s, n)
    finally:
        M.VmStackList.deserialize = classmethod(real_d)
    w.claim('parse step does not raise', k2 == 'ok')
    if k2 == 'ok':
        w.claim('recursion on reference 0 with n-1', len(dcalls) == 1 and dcalls[0][1] == n - 1 and
                w.eq_seq(bits_of(w, dcalls[0][0]), E.uint(0xABC, 12)))
        w.claim('result = rest ++ [top of stack]', len(g) == 3 and g[:2] == ['x', 'y'] and g[2] == v)


CONTS = ['vmc_quit', 'vmc_quit_exc', 'vmc_repeat', 'vmc_until', 'vmc_again', 'vmc_while_cond', 'vmc_while_body', 'vmc_pushint']


def _mk_cont(w, kind, depth=0):
    """(library VmCont, spec tuple)"""
    M = _M()
    leaf = lambda i: _mk_cont(w, ['vmc_quit_exc', 'vmc_quit'][i % 2] if depth == 0 else 'vmc_quit_exc', depth + 1)
    f, lf = {}, {}
    if kind == 'vmc_quit':
        f['exit_code'] = lf['exit_code'] = w.int(f'exit_code{depth}', -(1 << 31), (1 << 31) - 1)
    elif kind == 'vmc_repeat':
        f['count'] = lf['count'] = w.int('count', 0, (1 << 63) - 1)
    elif kind == 'vmc_pushint':
        f['value'] = lf['value'] = w.int('value', -(1 << 31), (1 << 31) - 1)
    subs = {'vmc_repeat': ['body', 'after'], 'vmc_until': ['body', 'after'], 'vmc_again': ['body'],
            'vmc_while_cond': ['cond', 'body', 'after'], 'vmc_while_body': ['cond', 'body', 'after'], 'vmc_pushint': ['next']}.get(kind, [])
    for i, nm in enumerate(subs):
        lc, sc = leaf(i)
        lf[nm], f[nm] = lc, sc
    return M.VmCont(kind, **lf), (kind, f)


def _cont_eq(w, g, spec):
    M = _M()
    kind, f = spec
    conj = [isinstance(g, M.VmCont) and g.type_ == kind]
    if not conj[0]:
        return False
    for nm, v in f.items():
        if not hasattr(g, nm):
            return False
        if isinstance(v, tuple):
            conj.append(_cont_eq(w, getattr(g, nm), v))
        else:
            conj.append(getattr(g, nm) == v)
    return w.And(*conj)


@obligation('C17.cont', 'C17', cases=[{'kind': k} for k in CONTS], assumes=[KF],
            fuc=[V + 'VmCont.serialize', V + 'VmCont.deserialize', V + 'VmStackValue.serialize', V + 'VmStackValue.deserialize'],
            descr='continuations without control data (vmc_quit, quit_exc, repeat, until, again, while_cond, while_body, pushint; '
                  'fields symbolic over their full width, nested continuations in references): serialize == schema encoding; '
                  'deserialize returns equal fields (the tag bits are consumed, signed fields stay signed)')
def cont(w, kind):
    M = _M()
    lc, sc = _mk_cont(w, kind)
    node = SV.value(w, ('cont',) + sc)
    k, c = call(M.VmStackValue.serialize, lc)
    w.claim(f'serialize does not raise ({c if k != "ok" else ""})', k == 'ok')
    if k == 'ok':
        w.claim('serialize == schema encoding', SV.matches(w, c, node))
    s = SV.build(w, node).begin_parse()
    k3, g = call(M.VmStackValue.deserialize, s)
    w.claim(f'deserialize does not raise ({g if k3 != "ok" else ""})', k3 == 'ok')
    if k3 == 'ok':
        w.claim('equal continuation', _cont_eq(w, g, sc))
        w.claim('nothing left unread (the whole tag and every field are consumed)',
                w.And(w.eq_seq(bits_of(w, s), Seq()), s.ref_offset == len(s.refs)))


@obligation('C17.native', 'C17', kind='bounded', samples=150,
            fuc=[V + 'VmStack.serialize', V + 'VmStack.deserialize'],
            descr='bounded, native: random stacks (depth 0..50) of nulls, integers around +-2^63 and +-2^256, cells, slices, builders, '
                  'tuples nested up to 4 deep with lengths 0..6, tag-only continuations: round trip equal, serialising twice equal')
def native(w):
    M = _M()
    from pytoniq_core.boc.builder import Builder
    from pytoniq_core.boc.cell import Cell
    from pytoniq_core.boc.slice import Slice
    rng = w.rng

    def rv(d):
        t = rng.random()
        if t < 0.1:
            return None
        if t < 0.5:
            b = rng.choice([0, 1, 62, 63, 64, 65, 255, 256])
            v = rng.choice([(1 << b) - 1, 1 << b, -(1 << b), -(1 << b) - 1, -(1 << b) + 1, rng.getrandbits(b + 1)])
            return max(-(1 << 256), min((1 << 256) - 1, v))
        if t < 0.6:
            return Builder().store_uint(rng.getrandbits(20), 20).end_cell()
        if t < 0.7:
            return Builder().store_uint(rng.getrandbits(33), 33).store_ref(Cell.empty()).end_cell().begin_parse()
        if t < 0.75:
            return Builder().store_uint(rng.getrandbits(9), 9)
        if t < 0.8:
            return M.VmCont(rng.choice(['vmc_quit_exc']))
        if d >= 4:
            return 7
        return M.VmTuple([rv(d + 1) for _ in range(rng.choice([0, 1, 2, 3, 6]))])

    def eq(a, b):
        if isinstance(a, M.VmTuple):
            return isinstance(b, M.VmTuple) and len(a.list) == len(b.list) and all(eq(x, y) for x, y in zip(a.list, b.list))
        if isinstance(a, Cell):
            return isinstance(b, Cell) and a.hash == b.hash
        if isinstance(a, Slice):
            return isinstance(b, Slice) and a.bits == b.bits and [r.hash for r in a.refs[a.ref_offset:]] == [r.hash for r in b.refs[b.ref_offset:]]
        if isinstance(a, Builder):
            return isinstance(b, Builder) and a.bits == b.bits
        if isinstance(a, M.VmCont):
            return isinstance(b, M.VmCont) and a.type_ == b.type_
        return type(a) is type(b) and a == b

    import copy
    st = [rv(0) for _ in range(rng.randrange(0, 51))]

    def shape(x):
        return ('t', [shape(y) for y in x.list]) if isinstance(x, M.VmTuple) else type(x).__name__
    before = [shape(x) for x in st]
    c1 = M.VmStack.serialize(st)
    c2 = M.VmStack.serialize(st)
    w.claim('serialising twice gives the same cell', c1.hash == c2.hash)
    w.claim('caller\'s values untouched', [shape(x) for x in st] == before)
    back = M.VmStack.deserialize(c1.begin_parse())
    w.claim('round trip: same depth', len(back) == len(st))
    w.claim('round trip: equal values in order', len(back) == len(st) and all(eq(a, b) for a, b in zip(st, back)))


@obligation('C17.cont.cdata', 'C17', cases=[{'kind': k} for k in ('vmc_envelope', 'vmc_std')],
            fuc=[V + 'VmCont.serialize', V + 'VmCont.deserialize', V + 'VmControlData.serialize', V + 'VmControlData.deserialize',
                 V + 'VmSaveList.serialize', V + 'VmSaveList.deserialize'],
            descr='continuations WITH control data (vm_ctl_data: nargs, stack, save list, cp): serialise then parse returns equal '
                  'fields.  RECORDED KNOWN FINDING on the unchanged tree (see KNOWN_FINDINGS.txt): the serialiser takes an already '
                  'serialised stack Cell and a HashMap while the parser returns a list and a dict, and absent optional fields become '
                  'missing attributes, so these two kinds do not round-trip')
def cont_cdata(w, kind):
    M = _M()
    nargs = w.int('nargs', 0, (1 << 13) - 1)
    cp = w.int('cp', -(1 << 15), (1 << 15) - 1)
    sv = w.int('sv', -(1 << 63), (1 << 63) - 1)
    cd = M.VmControlData('vm_ctl_data', nargs=nargs, stack=[sv], save=None, cp=cp)
    nxt = M.VmCont('vmc_quit_exc')
    if kind == 'vmc_envelope':
        c = M.VmCont('vmc_envelope', cdata=cd, next=nxt)
    else:
        from pytoniq_core.boc.builder import Builder
        c = M.VmCont('vmc_std', cdata=cd, code=Builder().store_uint(5, 8).end_cell().begin_parse())
    k, cell = call(M.VmCont.serialize, c)
    w.claim(f'serialize does not raise ({type(cell).__name__ if k != "ok" else ""})', k == 'ok')
    if k != 'ok':
        return
    k2, g = call(M.VmCont.deserialize, cell.begin_parse())
    w.claim('deserialize does not raise', k2 == 'ok')
    if k2 == 'ok':
        gd = getattr(g, 'cdata', None)
        w.claim('control data round-trips', gd is not None and w.And(getattr(gd, 'nargs', None) == nargs, getattr(gd, 'cp', None) == cp,
                                                                   getattr(gd, 'stack', None) == [sv]))
