"""C18 — CRC-16/XMODEM and CRC-32C equal their bitwise definitions, for every byte string.

Route: VCs generated from the AST of the real functions (vf/astbv.py), discharged in the bit-vector theory.
  table:   every table entry equals eight rounds of the bitwise definition            (256 concrete checks each)
  step:    for ALL register states and ALL bytes the loop body equals the bitwise byte step, the register stays in
           range (so the table index is always in 0..255: no IndexError) and no intermediate overflows the encoding
  frame:   init value, final xor and to_bytes() layout (through the proxies)
Induction over the length of the input (stated once): spec(data[:i+1]) = step(spec(data[:i]), data[i]) by definition;
init agrees, each iteration agrees (step) => the loop invariant crc == spec_state(data[:i]) holds for every i, hence
for every byte string.  The loop shape (`for byte in data`, no break/continue) is checked structurally on the AST.
"""
import ast
import os

from vf.engine import obligation
from vf.spec import crc as S

FUC = ['pytoniq_core.crypto.crc.crc16', 'pytoniq_core.crypto.crc.crc32c']
CHUNKS = [{'lo': i, 'hi': i + 16} for i in range(0, 256, 16)]


def _extract(fname, w):
    from vf import loader, astbv
    from harness.common import no_verdict
    with open(os.path.join(loader.REPO, 'pytoniq_core', 'crypto', 'crc.py')) as f:
        src = f.read()
    try:
        return astbv.extract_crc_function(src, fname)
    except astbv.NotInFragment as e:
        # a function outside the fragment is not a violation (a correct fast path would do it): no verdict here, the native
        # differential obligation (all lengths, both byte orders, call histories) decides
        no_verdict(w, f'{fname} left the AST fragment the VC generator supports: {e}')


def _cfg(fname):
    if fname == 'crc16':
        return dict(bits=16, init=0, spec_step=S.crc16_xmodem_step, bv_step=S.bv_crc16_step)
    return dict(bits=32, init=0xFFFFFFFF, spec_step=S.crc32c_step, bv_step=S.bv_crc32c_step)


def _table_name(x, w):
    if len(x['tables']) != 1:
        from harness.common import no_verdict
        no_verdict(w, 'not exactly one lookup table')
    return next(iter(x['tables']))


for _f in ('crc16', 'crc32c'):
    def _mk(fname):
        @obligation(f'C18.{fname}.table', 'C18', fuc=[f'pytoniq_core.crypto.crc.{fname}'],
                    descr='each of the 256 table entries (read from the AST) equals the bitwise definition applied to '
                          'the index; the table has exactly 256 entries')
        def table(w):
            x = _extract(fname, w)
            cfg = _cfg(fname)
            t = _table_name(x, w)
            if t is None:
                return
            tab = x['tables'][t]
            w.claim('table has 256 entries', len(tab) == 256)
            for i, v in enumerate(tab[:256]):
                if fname == 'crc16':
                    w.claim(f'table[{i}]', v == cfg['spec_step'](0, i))
                else:
                    w.claim(f'table[{i}]', v == cfg['spec_step'](0, i))

        @obligation(f'C18.{fname}.step', 'C18', cases=CHUNKS, fuc=[f'pytoniq_core.crypto.crc.{fname}'],
                    descr='loop body (from the AST) == 8 rounds of the bitwise definition for all register states and '
                          'all bytes; register stays in range; index in range; no overflow of the 64-bit encoding',
                    samples=300)
        def step(w, lo, hi):
            cfg = _cfg(fname)
            if not w.symbolic:
                _native_step(w, fname, cfg)
                return
            import z3
            from vf import astbv
            x = _extract(fname, w)
            t = _table_name(x, w)
            if t is None:
                return
            tab = x['tables'][t]
            W = astbv.W
            crc = z3.BitVec('crc', W)
            byte = z3.BitVec('byte', W)
            w.inputs['crc'] = ('int', z3.BV2Int(crc))
            w.inputs['byte'] = ('int', z3.BV2Int(byte))
            ev = astbv.BVEval({_state_var(x, w): crc, x['loop'].target.id: byte}, x['tables'])
            try:
                for s in x['loop'].body:
                    ev.stmt(s)
            except astbv.NotInFragment as e:
                from harness.common import no_verdict
                no_verdict(w, f'loop body left the AST fragment: {e}')
            out = ev.env[_state_var(x, w)]
            pre = z3.And(z3.ULT(crc, 1 << cfg['bits']), z3.ULT(byte, 256))
            spec = cfg['bv_step'](z3, crc, byte)
            w.claim('exactly one table lookup per iteration', len(ev.lookups) == 1)
            if len(ev.lookups) != 1:
                return
            _, idx, res = ev.lookups[0]
            w.claim('index-in-range', z3.Implies(pre, z3.ULT(idx, 256)))
            for i in range(lo, hi):
                hyp = z3.And(pre, idx == i, res == z3.BitVecVal(tab[i] if i < len(tab) else 0, W))
                w.claim(f'step==bitwise [index {i}]', z3.Implies(hyp, out == spec))
                w.claim(f'register-in-range [index {i}]', z3.Implies(hyp, z3.ULT(out, 1 << cfg['bits'])))
                for nm, sc in ev.side:
                    w.claim(f'{nm} [index {i}]', z3.Implies(hyp, sc))

        @obligation(f'C18.{fname}.frame', 'C18', fuc=[f'pytoniq_core.crypto.crc.{fname}'],
                    cases=([{'order': 'big'}] if fname == 'crc16' else [{'order': 'big'}, {'order': 'little'}]),
                    descr='initial register value, final xor and byte layout of the result (to_bytes) equal the '
                          'definition; loop shape checked on the AST', samples=200)
        def frame(w, order):
            cfg = _cfg(fname)
            if not w.symbolic:
                _native_full(w, fname, order)
                return
            import z3
            from vf import astbv
            x = _extract(fname, w)
            sv = _state_var(x, w)
            ev = astbv.BVEval({}, x['tables'])
            for s in x['inits']:
                ev.stmt(s)
            w.claim('initial register value', z3.simplify(ev.env[sv]) == cfg['init'])
            w.claim('single state variable updated in the loop',
                    all(_assigned(s) == sv for s in x['loop'].body))
            # the return expression through the proxies
            state = w.int('crc', 0, (1 << cfg['bits']) - 1)
            code = compile(ast.Expression(x['ret'].value), '<crc return>', 'eval')
            env = {sv: state}
            if len(x['params']) > 1:
                env[x['params'][1]] = order
            got = eval(code, {}, env)
            n = cfg['bits'] // 8
            want = state ^ (0xFFFFFFFF if fname == 'crc32c' else 0)
            want_b = want.to_bytes(n, order)
            w.claim('result layout', got == want_b)
            if fname == 'crc32c':
                d = x['fn'].args.defaults
                w.claim('default byte order is little', len(d) == 1 and getattr(d[0], 'value', None) == 'little')
        return table, step, frame
    _mk(_f)


def _state_var(x, w):
    names = {_assigned(s) for s in x['loop'].body}
    if len(names) != 1:
        from harness.common import no_verdict
        no_verdict(w, 'loop body assigns more than one variable')
    return names.pop()


def _assigned(s):
    if isinstance(s, ast.Assign) and len(s.targets) == 1 and isinstance(s.targets[0], ast.Name):
        return s.targets[0].id
    if isinstance(s, ast.AugAssign) and isinstance(s.target, ast.Name):
        return s.target.id
    return None


def _real(fname):
    from pytoniq_core.crypto import crc as m
    return getattr(m, fname)


def _native_step(w, fname, cfg):
    """replay of a step counter-model: find a message that drives the real function into the state, append the byte"""
    state = w.int('crc', 0, (1 << cfg['bits']) - 1)
    byte = w.int('byte', 0, 255)
    f = _real(fname)
    spec = S.crc16_xmodem if fname == 'crc16' else S.crc32c
    prefix = None
    if fname == 'crc16':
        for a in range(256):
            s1 = cfg['spec_step'](cfg['init'], a)
            for b in range(256):
                if cfg['spec_step'](s1, b) == state:
                    prefix = bytes([a, b])
                    break
            if prefix:
                break
    datas = [bytes([byte])]
    if prefix is not None:
        datas.insert(0, prefix + bytes([byte]))
    n = w.int('n', 0, 40)
    datas.append(w.bytes('data', n))
    for d in datas:
        try:
            got = f(d)
        except Exception as e:
            got = f'{type(e).__name__}'
        w.claim(f'{fname}({d.hex()}) == bitwise definition', got == spec(d))


_BOUNDARY_LENS = sorted({(1 << k) + d for k in range(3, 14) for d in (-1, 0, 1)} | {3 * 4096, 5 * 1024, 16384, 65536})


def _native_full(w, fname, order):
    # every fourth sample sits on a power-of-two length boundary (block-wise "optimised" loops go wrong exactly there)
    if w.choice('boundary', [False] * 7 + [True]):
        n = w.choice('len', _BOUNDARY_LENS)
    else:
        n = w.int('n', 0, 300)
    d = w.bytes('data', n)
    f = _real(fname)
    if fname == 'crc16':
        w.claim('crc16 == bitwise definition', f(d) == S.crc16_xmodem(d))
    else:
        w.claim('crc32c == bitwise definition', f(d, order) == S.crc32c(d, order))
        if order == 'little':
            w.claim('crc32c default order', f(d) == S.crc32c(d, 'little'))


@obligation('C18.native.differential', 'C18', kind='bounded', samples=1500, fuc=FUC,
            descr='bounded: real crc16/crc32c vs the bitwise definitions on seeded random strings of length 0..300 and of every length 2^k-1, 2^k, 2^k+1 (k = 3..13), 5 KiB, 12 KiB, 16 KiB, 64 KiB '
                  '(sanity of the AST extraction; not counted as proved)')
def differential(w):
    _native_full(w, 'crc16', 'big')
    _native_full(w, 'crc32c', w.choice('order', ['little', 'big']))
    # call histories: the same bytes under the other byte order, and a valid call right after a REFUSED one (an invalid byte
    # order raises): results never depend on earlier calls
    f = _real('crc32c')
    d = w.bytes('hist', w.int('hn', 0, 40))
    first = w.choice('first_order', ['little', 'big'])
    other = 'big' if first == 'little' else 'little'
    w.claim('crc32c: first call', f(d, first) == S.crc32c(d, first))
    w.claim('crc32c: same bytes, other byte order', f(d, other) == S.crc32c(d, other))
    try:
        f(w.bytes('rejected', w.int('rn', 1, 20)), 'network')
        refused = False
    except Exception:
        refused = True
    w.claim('an invalid byte order is refused', refused)
    d2 = w.bytes('after', w.int('an', 0, 20))
    w.claim('crc32c: a valid call after a refused one', f(d2) == S.crc32c(d2, 'little'))
    w.claim('crc16: after all that', _real('crc16')(d2) == S.crc16_xmodem(d2))
