"""C09 — dictionary (HashMap) serialise/parse round trip; key admission.

Deductive per-function part: key admission and normalisation of every key form, key -> bit text conversion, label
write/read round trip (shared with C10), node/edge level with the recursive calls replaced by their contract, the
optional-dictionary wrappers.  Tree construction recurses over SETS of keys (sorted-LCP, partition by next bit) and is
decided by a bounded stand-in (exhaustive small widths incl. all insertion orders, random large) — never counted as proved.
"""
import importlib
import itertools
from vf.engine import obligation, REGISTRY
from vf.spec import hashmap as SH, enc as E
from vf.bits import Seq
from harness.common import mk_builder, mk_slice, bits_of, call, is_error, Child, same_objects, abstract_cell
import harness.C10 as C10

H = 'pytoniq_core.boc.hashmap.hashmap.HashMap.'
U = 'pytoniq_core.boc.hashmap.utils.'
P = 'pytoniq_core.boc.hashmap.parse.'
S = 'pytoniq_core.boc.slice.Slice.'
B = 'pytoniq_core.boc.builder.Builder.'


class RecordingMap(dict):
    """the HashMap's backing map, recording assignments without hashing (a symbolic key cannot be hashed soundly)"""

    def __init__(self):
        super().__init__()
        self.stored = []

    def __setitem__(self, k, v):
        self.stored.append((k, v))


@obligation('C09.key_admission', 'C09', cases=[{'size': n} for n in (1, 2, 3, 8, 32, 64, 256)], fuc=[H + 'set_int_key', H + 'set'],
            descr='set_int_key / set(int) for every integer k in [-2^(size+1), 2^(size+1)]: accepted iff 0 <= k < 2^size and then '
                  'stored under exactly k; otherwise an error and the map is unchanged (no aliasing to another key)')
def key_admission(w, size):
    from pytoniq_core.boc.hashmap.hashmap import HashMap
    k = w.int('k', -(1 << (size + 1)), 1 << (size + 1))
    via = w.choice('via', ['set_int_key', 'set'])
    hm = HashMap(size, map_=RecordingMap())
    k_, got = call(hm.set_int_key, k, 'V') if via == 'set_int_key' else call(hm.set, k, 'V')
    fits = w.And(k >= 0, k < (1 << size))
    if k_ == 'raise':
        w.cover('raise')
        w.claim('refused only when the key does not fit the width', w.Not(fits))
        w.claim('exception is an API error', is_error(got))
        w.claim('map unchanged', hm.map.stored == [])
    else:
        w.cover('ok')
        w.claim('keys that do not fit (too large or negative) are refused', fits)
        w.claim('stored under exactly the key', len(hm.map.stored) == 1 and w.And(*[kk == k for kk, _ in hm.map.stored]) and
                [v for _, v in hm.map.stored] == ['V'])
        w.claim('returns self', got is hm)


@obligation('C09.key_forms', 'C09', cases=[{'form': f} for f in ('bytes', 'bits', 'address', 'hashed', 'serializer')],
            fuc=[H + 'set', H + 'set_int_key', B + 'store_address', S + 'load_uint'],
            descr='set() normalises bytes (big-endian), bit text, Address (the 267-bit addr_std image) and hashed text '
                  '(SHA-256 of its UTF-8 bytes) to the integer the specification names, then applies key admission',
            assumes=['T3 SHA-256 uninterpreted', 'T2 UTF-8 encode/decode inverse pair'])
def key_forms(w, form):
    from pytoniq_core.boc.hashmap.hashmap import HashMap
    from pytoniq_core.boc.address import Address
    if form == 'bytes':
        nb = w.choice('nb', [1, 4, 32])
        size = 8 * nb
        raw = w.bytes('key', nb)
        key, want = raw, w.val(w.bytes_seq(raw))
    elif form == 'bits':
        size = w.choice('size', [1, 5, 16])
        seq = w.bits('key', size)
        want = w.val(seq)
        if w.symbolic:
            from vf.bits import Sym01
            key = Sym01(seq)
        else:
            key = format(seq.value(), f'0{size}b')
    elif form == 'address':
        size = 267
        wc = w.int('wc', -128, 127)
        hp = w.bytes('hash', 32)
        key = Address((wc, hp))
        want = w.val(E.addr_std(wc, w.bytes_seq(hp)))
    elif form == 'hashed':
        size = 256
        raw = w.bytes('text', w.choice('tl', [0, 3, 40]))
        if w.symbolic:
            from vf.shims import SymText
            key = SymText(raw) if type(raw) is not bytes else raw.decode('latin1')
        else:
            raw = bytes((x % 95) + 32 for x in raw)
            key = raw.decode()
        want = w.val(w.bytes_seq(w.sha256(w.bytes_seq(raw))))
    else:
        size = 16
        want = w.int('k', 0, 65535)
        key = 'anything'
    hm = HashMap(size, key_serializer=(lambda _k: want) if form == 'serializer' else None, map_=RecordingMap())
    k_, got = call(hm.set, key, 'V', hash_key=True) if form == 'hashed' else call(hm.set, key, 'V')
    w.claim(f'accepted ({got if k_ != "ok" else ""})', k_ == 'ok')
    if k_ == 'ok':
        w.claim('stored under the specified integer', len(hm.map.stored) == 1 and w.And(*[kk == want for kk, _ in hm.map.stored]))


@obligation('C09.key_text', 'C09', cases=[{'n': n} for n in (1, 2, 3, 8, 16, 32, 64)], fuc=[U + 'pad'],
            inlined=['bin() (shadow: one path per bit length)'],
            descr='pad(bin(k)[2:], n) is the n-bit big-endian image of k for every admitted key 0 <= k < 2^n')
def key_text(w, n):
    U_ = importlib.import_module('pytoniq_core.boc.hashmap.utils')
    k = w.int('k', 0, (1 << n) - 1)
    if w.symbolic:
        from vf.shims import vbin as bin_
    else:
        bin_ = bin
    got = U_.pad(bin_(k)[2:], n)
    if w.symbolic:
        from vf.bits import Sym01
        if type(got) is str:
            gs = Seq.from_01(got)
        else:
            gs = got.seq
    else:
        gs = Seq.from_01(got)
    w.claim('length n', gs.length() == n)
    w.claim('value k', w.val(gs) == k)


# label write/read round trip: the contracts of C10, claimed here for the round trip
for _oid in ('write_label', 'read_label'):
    _o = REGISTRY['C10.' + _oid]
    _cases = [c for c in _o.cases if c['n'] in (0, 1, 2, 3, 8, 9, 16)]
    obligation('C09.' + _oid, 'C09', cases=_cases, fuc=_o.fuc, descr='[round trip: writer emits enc, reader inverts every enc] ' + _o.descr)(_o.fn)


@obligation('C09.edge', 'C09', cases=[{'n': n, 'leaf': lf} for n in (0, 1, 2, 3) for lf in (True, False)],
            fuc=[U + 'write_edge', U + 'write_node', U + 'write_label', P + 'parse', P + 'deserialize_hashmap_node', P + 'deserialize_hml'],
            descr='edge level, modular: write_edge(label, node) writes the label then the node; a leaf writes the value after the '
                  'label and parse() of that cell returns {prefix++label: slice holding exactly the value}; a fork writes two '
                  'references built by write_edge(left/right, m-1) in that order (recursion replaced by a recording stub)')
def edge(w, n, leaf):
    U_ = importlib.import_module('pytoniq_core.boc.hashmap.utils')
    P_ = importlib.import_module('pytoniq_core.boc.hashmap.parse')
    from pytoniq_core.boc.builder import Builder
    import bitarray as _ba
    label = format(w.choice('label', list(range(1 << n))), f'0{n}b') if n else ''
    if leaf:
        m = n
        v = w.int('v', 0, 65535)
        b = Builder()
        k_, _ = call(U_.write_edge, {'label': label, 'node': {'type': 'leaf', 'value': v}}, m, lambda src, dest: dest.store_uint(src, 16), b)
        w.claim('write_edge does not raise', k_ == 'ok')
        if k_ != 'ok':
            return
        want = Seq.from_01(SH.label_bits(label, m)) + E.uint(v, 16)
        w.claim('cell = canonical label ++ value', w.eq_seq(bits_of(w, b), want) and len(b.refs) == 0)
        pre = w.choice('prefix', ['1', '01'])
        ret = {}
        k2, _ = call(P_.parse, b.end_cell().begin_parse(), m, ret, _ba.bitarray(pre))
        w.claim('parse does not raise', k2 == 'ok')
        w.claim('one entry under prefix ++ label', list(ret.keys()) == [pre + label])
        if list(ret.keys()) == [pre + label]:
            w.claim('value slice holds exactly the value', w.eq_seq(bits_of(w, ret[pre + label]), E.uint(v, 16)))
    else:
        m = w.int('m', n + 1, 1023)
        calls = []

        def rec(src, key_size, serializer, to):
            calls.append((src, key_size, to))
            to.store_uint(len(calls), 3)
        b = Builder()
        real_write_label = U_.write_label
        with (w.stub(U_, 'write_edge', rec) if w.symbolic else C10._native_patch(U_, 'write_edge', rec)):
            def top():
                real_write_label(label, m, b)
                U_.write_node({'type': 'fork', 'left': 'L', 'right': 'R'}, m - len(label), None, b)
            k_, _ = call(top)
        w.claim('does not raise', k_ == 'ok')
        if k_ != 'ok':
            return
        w.claim('two recursive calls: left then right', [c[0] for c in calls] == ['L', 'R'])
        w.claim('children get the remaining key length minus one', w.And(*[c[1] == m - n - 1 for c in calls]))
        w.claim('two references, in order', len(b.refs) == 2 and all(
            w.val(bits_of(w, b.refs[i])) == i + 1 for i in range(min(2, len(b.refs)))))


@obligation('C09.wrappers', 'C09', cases=[{'present': p} for p in (False, True)],
            fuc=[B + 'store_dict', S + 'load_dict', S + 'preload_dict', S + 'load_hashmap', H + 'parse', H + 'from_cell', H + 'serialize'],
            descr='optional-dictionary wrappers: the empty map serialises to None ("no cell"), store_dict(None) writes bit 0 and '
                  'load_dict/preload_dict return None; a present dictionary is bit 1 + one reference and load_dict, preload_dict, '
                  'load_hashmap, HashMap.parse and HashMap.from_cell agree on it')
def wrappers(w, present):
    from pytoniq_core.boc.hashmap.hashmap import HashMap
    from pytoniq_core.boc.builder import Builder
    if not present:
        w.claim('empty map serialises to None', HashMap(8).serialize() is None)
        b = Builder().store_dict(None)
        w.claim('store_dict(None) writes a single 0 bit', w.eq_seq(bits_of(w, b), E.lit('0')) and len(b.refs) == 0)
        s = b.end_cell().begin_parse()
        w.claim('preload_dict -> None', s.preload_dict(8) is None and s.remaining_bits == 1)
        w.claim('load_dict -> None', s.load_dict(8) is None and s.remaining_bits == 0)
        return
    v0, v1 = w.int('v0', 0, 255), w.int('v1', 0, 255)
    hm = HashMap(8).with_uint_values(8).set_int_key(3, v0).set_int_key(200, v1)
    cell = hm.serialize()
    b = Builder().store_dict(cell)
    w.claim('store_dict(cell) writes bit 1 and the reference', w.eq_seq(bits_of(w, b), E.lit('1')) and same_objects(b.refs, [cell]))
    vd = lambda c: c.load_uint(8)
    res = {
        'preload_dict': b.end_cell().begin_parse().preload_dict(8, None, vd),
        'load_dict': b.end_cell().begin_parse().load_dict(8, None, vd),
        'load_hashmap': cell.begin_parse().load_hashmap(8, None, vd),
        'HashMap.parse': HashMap.parse(cell.begin_parse(), 8, None, vd),
    }
    for nm, r in res.items():
        w.claim(f'{nm}: keys ascending and complete', list(r.keys()) == [3, 200])
        if list(r.keys()) == [3, 200]:
            w.claim(f'{nm}: values', w.And(r[3] == v0, r[200] == v1))
    fc = HashMap.from_cell(cell, 8)
    w.claim('from_cell: keys', list(fc.map.keys()) == [3, 200])


@obligation('C09.wrappers.sequence', 'C09', cases=[{'lead': l} for l in (0, 1, 2)],
            fuc=[B + 'store_dict', B + 'store_ref', S + 'load_dict', S + 'preload_dict', S + 'load_ref', S + 'preload_ref', S + 'load_maybe_ref'],
            descr='optional dictionaries in the MIDDLE of a cell: after `lead` plain references and a byte, a present dictionary, an '
                  'absent one and a second present dictionary (different contents, symbolic values) are stored; reading them in that '
                  'order - each first with preload_dict (which must not consume) then with load_dict - returns each dictionary\'s own '
                  'pairs: the wrappers honour the reference cursor (references consumed earlier) and the bit position')
def wrappers_sequence(w, lead):
    from pytoniq_core.boc.hashmap.hashmap import HashMap
    from pytoniq_core.boc.builder import Builder
    v = [w.int(f'v{i}', 0, 255) for i in range(4)]
    d1 = HashMap(8).with_uint_values(8).set_int_key(1, v[0]).set_int_key(7, v[1]).serialize()
    d2 = HashMap(8).with_uint_values(8).set_int_key(0, v[2]).set_int_key(255, v[3]).serialize()
    b = Builder()
    leads = [Builder().store_uint(i, 8).end_cell() for i in range(lead)]
    for c in leads:
        b.store_ref(c)
    b.store_uint(0xA5, 8).store_dict(d1).store_dict(None).store_dict(d2)
    s = b.end_cell().begin_parse()
    for c in leads:
        w.claim('leading reference', s.load_ref() is c)
    w.claim('byte', s.load_uint(8) == 0xA5)
    vd = lambda c: c.load_uint(8)
    for nm, keys, vals in (('first', [1, 7], v[:2]), ('absent', None, None), ('second', [0, 255], v[2:])):
        bits_before, off_before = s.remaining_bits, s.ref_offset
        k, p_ = call(s.preload_dict, 8, None, vd)
        w.claim(f'{nm}: preload_dict does not raise ({p_ if k != "ok" else ""})', k == 'ok')
        w.claim(f'{nm}: preload_dict consumes nothing', s.remaining_bits == bits_before and s.ref_offset == off_before)
        k2, l_ = call(s.load_dict, 8, None, vd)
        w.claim(f'{nm}: load_dict does not raise ({l_ if k2 != "ok" else ""})', k2 == 'ok')
        w.claim(f'{nm}: load_dict consumes one bit' + (' and one reference' if keys else ''),
                s.remaining_bits == bits_before - 1 and s.ref_offset == off_before + (1 if keys else 0))
        for how, kk, r in (('preload_dict', k, p_), ('load_dict', k2, l_)):
            if kk != 'ok':
                continue
            if keys is None:
                w.claim(f'{nm}: {how} -> None', r is None)
            else:
                ok = r is not None and list(r.keys()) == keys
                w.claim(f'{nm}: {how}: this dictionary\'s keys, ascending', ok)
                if ok:
                    w.claim(f'{nm}: {how}: this dictionary\'s values', w.And(r[keys[0]] == vals[0], r[keys[1]] == vals[1]))
    w.claim('nothing left unread', s.remaining_bits == 0 and s.ref_offset == len(s.refs))


@obligation('C09.value_kinds', 'C09', cases=[{'kind': k} for k in ('uint', 'int', 'coins', 'address', 'cell')],
            fuc=[H + 'with_uint_values', H + 'with_int_values', H + 'with_coins_values', H + 'with_address_values', H + 'serialize', H + 'parse'],
            descr='the value serialisers a map can be given (with_uint_values / with_int_values / with_coins_values / '
                  'with_address_values, default: cells): a two-key map with symbolic values parses back, with the matching loader, to the '
                  'same key-value pairs')
def value_kinds(w, kind):
    from pytoniq_core.boc.hashmap.hashmap import HashMap
    from pytoniq_core.boc.builder import Builder
    from pytoniq_core.boc.address import Address
    hm = HashMap(16)
    if kind == 'uint':
        vals = [w.int('v0', 0, (1 << 32) - 1), w.int('v1', 0, (1 << 32) - 1)]
        hm.with_uint_values(32)
        vd, eq = (lambda c: c.load_uint(32)), (lambda g, v: g == v)
    elif kind == 'int':
        vals = [w.int('v0', -(1 << 31), (1 << 31) - 1), w.int('v1', -(1 << 31), (1 << 31) - 1)]
        hm.with_int_values(32)
        vd, eq = (lambda c: c.load_int(32)), (lambda g, v: g == v)
    elif kind == 'coins':
        vals = [w.int('v0', 1 << 16, (1 << 24) - 1), w.int('v1', 0, 0)]
        hm.with_coins_values()
        vd, eq = (lambda c: c.load_coins()), (lambda g, v: g == v)
    elif kind == 'address':
        hp = [w.bytes('h0', 32), w.bytes('h1', 32)]
        vals = [Address((0, hp[0])), Address((-1, hp[1]))]
        hm.with_address_values()
        vd = lambda c: c.load_address()
        eq = lambda g, v: w.And(g.wc == v.wc, g.hash_part == v.hash_part)
    else:
        vals = [Builder().store_uint(w.int('v0', 0, 255), 8).end_cell(), Builder().store_uint(w.int('v1', 0, 255), 8).end_cell()]
        vd = lambda c: c.load_uint(8)
        eq = lambda g, v: g == v.begin_parse().load_uint(8)
    hm.set_int_key(5, vals[0]).set_int_key(40000, vals[1])
    k, cell = call(hm.serialize)
    w.claim(f'serialize does not raise ({cell if k != "ok" else ""})', k == 'ok')
    if k != 'ok':
        return
    k2, got = call(HashMap.parse, cell.begin_parse(), 16, None, vd)
    w.claim(f'parse does not raise ({got if k2 != "ok" else ""})', k2 == 'ok')
    if k2 == 'ok':
        w.claim('keys ascending and complete', list(got.keys()) == [5, 40000])
        if list(got.keys()) == [5, 40000]:
            w.claim('values', w.And(eq(got[5], vals[0]), eq(got[40000], vals[1])))


# ---- bounded stand-ins ------------------------------------------------------------------------------------------------

def _roundtrip(w, width, order, vals, label):
    from pytoniq_core.boc.hashmap.hashmap import HashMap
    from pytoniq_core.boc.builder import Builder
    hm = HashMap(width).with_uint_values(16)
    for k in order:
        hm.set_int_key(k, vals[k])
    cell = hm.serialize()
    want = dict(sorted(vals.items()))
    vd = lambda c: c.load_uint(16)
    got = HashMap.parse(cell.begin_parse(), width, None, vd)
    ok = got == want and list(got.keys()) == sorted(want)
    if ok:
        got2 = Builder().store_dict(cell).end_cell().begin_parse().load_dict(width, None, vd)
        ok = got2 == want and list(got2.keys()) == sorted(want)
    if not ok:
        w.claim(f'{label}: round trip of width {width}, insertion order {order}: got {got}', False)
    return ok


@obligation('C09.tree.exhaustive', 'C09', kind='bounded', cases=[{'width': wd} for wd in (1, 2, 3, 4)], samples=1,
            fuc=[U + 'serialize_dict', U + 'build_tree', U + 'build_edge', U + 'build_node', U + 'fork_map', U + 'find_common_prefix',
                 U + 'remove_prefix_map', P + 'parse_hashmap', H + 'serialize', H + 'parse'],
            descr='bounded, exhaustive: key widths 1..3 (and 4 in the thorough tier; quick tier width 4: sets of up to 3 keys), EVERY non-empty key set, and for sets of up to 4 keys EVERY insertion order '
                  '(larger sets: sorted, reversed and one rotated order): parse(serialize(map)) == map with ascending keys, directly '
                  'and through store_dict/load_dict')
def tree_exhaustive(w, width):
    import os
    keys = list(range(1 << width))
    n = 0
    full = width <= 3 or os.environ.get('VERIF_TIER') == 'thorough'
    for r in range(1, len(keys) + 1):
        if not full and r > 3:
            break            # quick tier, width 4: all key sets of up to 3 keys in every order (the thorough tier runs all)
        for sub in itertools.combinations(keys, r):
            vals = {k: (k * 2654435761 + r) % 65536 for k in sub}
            orders = itertools.permutations(sub) if r <= 4 else [sub, sub[::-1], sub[r // 2:] + sub[:r // 2]]
            for order in orders:
                n += 1
                if not _roundtrip(w, width, list(order), vals, 'exhaustive'):
                    return
    w.used['round_trips'] = n
    w.claim(f'all {n} (key set, insertion order) pairs of width {width} round-trip', True)


@obligation('C09.tree.random', 'C09', kind='bounded', samples=150,
            fuc=[U + 'serialize_dict', P + 'parse_hashmap', H + 'serialize', H + 'parse', H + 'set'],
            descr='bounded, random: widths 1..900, up to 200 keys in random insertion order, clustered keys; key forms int / bytes / '
                  'bit text; oversized and negative keys rejected')
def tree_random(w):
    from pytoniq_core.boc.hashmap.hashmap import HashMap
    rng = w.rng
    width = rng.choice([1, 2, 5, 8, 16, 32, 64, 256, 267, 900, rng.randrange(1, 901)])
    nk = rng.randrange(1, 201 if width >= 8 else (1 << width) + 1)
    base = rng.getrandbits(width)
    keys = set()
    for _ in range(nk):
        t = rng.random()
        k = rng.getrandbits(width) if t < 0.4 else (base ^ (1 << rng.randrange(width)) if t < 0.8 else base ^ rng.getrandbits(max(1, width // 2)))
        keys.add(k & ((1 << width) - 1))
    vals = {k: rng.getrandbits(16) for k in keys}
    order = list(keys)
    rng.shuffle(order)
    w.used['width'], w.used['order'] = width, [hex(k) for k in order][:8]
    _roundtrip(w, width, order, vals, 'random')
    hm = HashMap(width).with_uint_values(16)
    for bad in (1 << width, (1 << width) + rng.getrandbits(8), -1, -rng.getrandbits(width) - 1):
        k_, _ = call(hm.set_int_key, bad, 1)
        w.claim(f'key {bad if abs(bad) < 1 << 70 else hex(bad)} outside width {width} is refused', k_ == 'raise')
    if width % 8 == 0 and width <= 256:
        k = rng.getrandbits(width)
        a = HashMap(width).with_uint_values(16).set(k.to_bytes(width // 8, 'big'), 5).serialize().hash
        b_ = HashMap(width).with_uint_values(16).set(format(k, f'0{width}b'), 5).serialize().hash
        c = HashMap(width).with_uint_values(16).set(k, 5).serialize().hash
        w.claim('bytes / bit-text / int forms of the same key give the same dictionary', a == b_ == c)
    w.claim('done', True)


@obligation('C09.reserialize', 'C09', cases=[{'how': h} for h in ('overwrite', 'add', 'overwrite_via_set', 'map_attr')],
            fuc=[H + 'serialize', H + 'set_int_key', H + 'set'],
            descr='history independence: a map is serialised, then changed (an existing key overwritten with another symbolic value through '
                  'set_int_key or set, a key added, or the map attribute edited), and serialised again: parsing the second cell returns the '
                  'CURRENT content (a serialiser remembering its earlier result would return the old one); symbolic values')
def reserialize(w, how):
    from pytoniq_core.boc.hashmap.hashmap import HashMap
    v0, v1, v2 = w.int('v0', 0, 255), w.int('v1', 0, 255), w.int('v2', 0, 255)
    hm = HashMap(8).with_uint_values(8).set_int_key(3, v0).set_int_key(200, v1)
    c1 = hm.serialize()
    vd = lambda c: c.load_uint(8)
    r1 = HashMap.parse(c1.begin_parse(), 8, None, vd)
    w.claim('first serialisation', list(r1.keys()) == [3, 200] and w.And(r1[3] == v0, r1[200] == v1))
    want = {3: v0, 200: v1}
    if how == 'overwrite':
        hm.set_int_key(3, v2)
        want[3] = v2
    elif how == 'overwrite_via_set':
        hm.set(200, v2)
        want[200] = v2
    elif how == 'add':
        hm.set_int_key(77, v2)
        want[77] = v2
    else:
        hm.map[3] = v2
        want[3] = v2
    c2 = hm.serialize()
    r2 = HashMap.parse(c2.begin_parse(), 8, None, vd)
    w.claim('second serialisation has the current keys', list(r2.keys()) == sorted(want))
    if list(r2.keys()) == sorted(want):
        w.claim('second serialisation has the CURRENT values', w.And(*[r2[k] == want[k] for k in want]))
