"""C08 — cells are immutable values; derived objects are isolated snapshots; no state is carried between calls.

Heap invariant I: no container (bits array, refs list) of a Cell is reachable from any Slice/Builder or from another Cell;
distinct Slices/Builders share no container.  Obligations (on the REAL object graph, contents symbolic, so they hold for
every content; aliasing is structural and the structure is enumerated):
  derive   every library route that derives an object from another returns fresh containers (re-establishes I) with the
           right abstract content, and mutating the derived object leaves the source untouched;
  frame    every Cell method leaves the cell (bits, refs, cached fields) untouched; operations taking other objects as
           arguments leave the arguments untouched;
  state    static scan of the whole package: no mutable default argument / module- or class-level container is mutated;
           results do not depend on earlier calls (dynamic double-run);
by induction over the history these give the property for every interleaving.  A random stateful exploration is the
bounded stand-in.
"""
import ast
import importlib
import os
from vf.engine import obligation, REGISTRY
from vf.spec import enc as E
from vf.bits import Seq
from harness.common import (mk_builder, mk_slice, bits_of, call, Child, is_error, same_objects, abstract_cell, abstract_child)

C = 'pytoniq_core.boc.cell.Cell.'
B = 'pytoniq_core.boc.builder.Builder.'
S = 'pytoniq_core.boc.slice.Slice.'


def _cell(w, name='c', nk=2):
    from pytoniq_core.boc.cell import Cell
    from pytoniq_core.boc.tvm_bitarray import TvmBitarray
    r = w.int(f'{name}.len', 0, 1000)
    data = w.bits(f'{name}.D', r)
    kids = [abstract_child(w, f'{name}.k{i}')[0] for i in range(nk)]
    for kd in kids:
        w.assume(kd._depths[0] <= 1021)
    c = Cell(w.mk_bitarray(TvmBitarray, data, 1023), list(kids))
    return c, data, kids


class IdMap:
    """index map keyed by object identity (abstract cells cannot be hashed: their hash is symbolic)"""

    def __init__(self, objs):
        self.objs = list(objs)

    def __getitem__(self, k):
        for i, o in enumerate(self.objs):
            if o is k:
                return i
        raise KeyError(k)


class Snap:
    """snapshot of a cell's observable state and container identities"""

    def __init__(self, w, c):
        self.w, self.c = w, c
        self.bits_obj, self.refs_obj = c.bits, c.refs
        self.bits = bits_of(w, c)
        self.refs = list(c.refs)
        self.hash, self.depth = c.hash, c.get_depth(0)
        self.hashes, self.depths = list(c._hashes), list(c._depths)
        self.desc, self.data = c._descriptors, c._data_bytes

    def unchanged(self):
        w, c = self.w, self.c
        return w.And(c.bits is self.bits_obj, c.refs is self.refs_obj, w.eq_seq(bits_of(w, c), self.bits),
                     same_objects(c.refs, self.refs), c.hash == self.hash, c.get_depth(0) == self.depth,
                     len(c._hashes) == len(self.hashes), c._descriptors == self.desc, c._data_bytes == self.data)


def _containers(o):
    out = []
    for nm in ('bits', '_bits', 'refs', '_refs'):
        if nm in getattr(o, '__dict__', {}):
            out.append(o.__dict__[nm])
    return out


def _disjoint(a, b):
    return all(x is not y for x in _containers(a) for y in _containers(b))


def _mutate(w, o):
    """a representative mutation of a derived Slice / Builder (consumes / appends bits and refs)"""
    from pytoniq_core.boc.slice import Slice
    from pytoniq_core.boc.builder import Builder
    if isinstance(o, Slice):
        call(o.load_bit)
        call(o.skip_bits, 3)
        call(o.load_ref)
    elif isinstance(o, Builder):
        call(o.store_uint, 5, 3)
        call(o.store_ref, Child('extra'))
        call(o.store_bits, '1')


DERIVE = ['begin_parse', 'to_slice', 'Slice.from_cell', 'to_builder', 'copy', 'begin_parse.to_cell', 'begin_parse.copy',
          'begin_parse.to_builder', 'to_builder.end_cell', 'to_builder.to_cell', 'to_builder.to_slice', 'builder.store_cell',
          'builder.store_slice', 'loaded_slice.to_cell', 'loaded_slice.copy']


@obligation('C08.derive', 'C08', cases=[{'route': r} for r in DERIVE],
            fuc=[C + 'begin_parse', C + 'to_slice', C + 'to_builder', C + 'copy', S + 'from_cell', S + 'to_cell', S + 'copy',
                 S + 'to_builder', B + 'end_cell', B + 'to_cell', B + 'to_slice', B + 'store_cell', B + 'store_slice',
                 'pytoniq_core.boc.tvm_bitarray.TvmBitarray.copy'],
            descr='every derivation route: the derived object shares NO container with its source (nor with the intermediate '
                  'objects), carries the source content, and mutating it (and the intermediates) leaves the source cell '
                  'untouched: bits, refs, hash, depth, cached fields and container identities')
def derive(w, route):
    from pytoniq_core.boc.slice import Slice
    from pytoniq_core.boc.builder import Builder
    c, data, kids = _cell(w)
    snap = Snap(w, c)
    chain = [c]
    steps = route.split('.')
    cur = c
    if route == 'Slice.from_cell':
        cur = Slice.from_cell(c)
        chain.append(cur)
    elif route.startswith('builder.'):
        b = Builder()
        b.store_uint(1, 1)
        if route == 'builder.store_cell':
            b.store_cell(c) if True else None
        else:
            s0 = c.begin_parse()
            chain.append(s0)
            b.store_slice(s0)
        cur = b
        chain.append(cur)
    elif route.startswith('loaded_slice.'):
        s0 = c.begin_parse()
        call(s0.load_ref)
        chain.append(s0)
        cur = getattr(s0, steps[1])()
        chain.append(cur)
    else:
        for st in steps:
            k, nxt = call(getattr(cur, st))
            w.claim(f'{st} succeeds', k == 'ok')
            if k != 'ok':
                return
            cur = nxt
            chain.append(cur)
    for i in range(len(chain)):
        for j in range(i + 1, len(chain)):
            w.claim(f'object {j} of the route shares no container with object {i}', _disjoint(chain[i], chain[j]))
    if not route.startswith('builder.') and not route.startswith('loaded_slice.'):
        w.claim('derived content == source content', w.And(w.eq_seq(bits_of(w, cur), data), same_objects(cur.refs, kids)))
    for o in reversed(chain[1:]):
        _mutate(w, o)
    w.claim('source cell untouched after mutating everything derived from it', snap.unchanged())
    w.claim('source children untouched', all(len(k.refs) == 0 for k in kids))


EXOTIC_ROUTES = ['begin_parse', 'to_slice', 'Slice.from_cell', 'copy', 'begin_parse.to_cell', 'begin_parse.copy', 'loaded_slice.to_cell',
                 'loaded_slice.copy', 'begin_parse.load_hashmap_aug_e', 'begin_parse.to_cell.begin_parse']


def _exotic_cell(w, kind):
    from pytoniq_core.boc.cell import Cell
    from pytoniq_core.boc.tvm_bitarray import TvmBitarray
    if kind == 'library':
        data, kids, t = E.lit('00000010') + w.bits('lib', 256), [], 2
    elif kind == 'pruned':
        data, kids, t = E.lit('00000001') + E.lit('00000001') + w.bits('ph', 256) + w.bits('pd', 16), [], 1
    else:
        kid = abstract_child(w, 'mk')[0]
        w.assume(kid._depths[0] <= 1000)
        data, kids, t = E.lit('00000011') + w.bits('vh', 256) + w.bits('vd', 16), [kid], 3
    return Cell(w.mk_bitarray(TvmBitarray, data, 1023), list(kids), t), data, kids


@obligation('C08.derive.exotic', 'C08', cases=[{'route': r, 'kind': k} for r in EXOTIC_ROUTES for k in ('library', 'pruned', 'merkle_proof')],
            fuc=[C + 'begin_parse', C + 'to_slice', C + 'copy', S + 'from_cell', S + 'to_cell', S + 'copy', S + 'load_hashmap_aug_e'],
            descr='the derivation routes open to EXOTIC cells (library, pruned branch, Merkle proof; incl. the dictionary loader that hands '
                  'a special slice back as a cell): every object of the route owns its containers, and consuming reads on the slices '
                  'afterwards change neither the source cell nor the cells derived from those slices')
def derive_exotic(w, route, kind):
    from pytoniq_core.boc.slice import Slice
    c, data, kids = _exotic_cell(w, kind)
    snap = Snap(w, c)
    chain = [c]
    cur = c
    if route == 'Slice.from_cell':
        cur = Slice.from_cell(c)
        chain.append(cur)
    elif route.startswith('loaded_slice.'):
        s0 = c.begin_parse()
        call(s0.load_bits, 8)
        chain.append(s0)
        k, cur = call(getattr(s0, route.split('.')[1]))
        if k != 'ok':
            # a partly consumed exotic slice need not denote a valid exotic cell (its level-mask byte is gone): refusing is fine
            w.claim('source cell untouched', snap.unchanged())
            return
        chain.append(cur)
    else:
        for st in route.split('.'):
            if st == 'load_hashmap_aug_e':
                k, nxt = call(cur.load_hashmap_aug_e, 32, lambda x: x, lambda x: x)
            else:
                k, nxt = call(getattr(cur, st))
            w.claim(f'{st} succeeds', k == 'ok')
            if k != 'ok':
                return
            cur = nxt
            chain.append(cur)
    for i in range(len(chain)):
        for j in range(i + 1, len(chain)):
            w.claim(f'object {j} of the route shares no container with object {i}', _disjoint(chain[i], chain[j]))
    derived_cells = [(o, Snap(w, o)) for o in chain[1:] if type(o).__name__ == 'Cell']
    for o in reversed(chain[1:]):
        _mutate(w, o)
    w.claim('source cell untouched after consuming reads on everything derived from it', snap.unchanged())
    for o, sn in derived_cells:
        w.claim('a cell derived from a slice is untouched by later reads on that slice', sn.unchanged())


CELL_METHODS = ['hash', 'get_hash', 'get_depth', 'get_data_bytes', 'get_descriptors', 'get_representation',
                'calculate_representation_hash', 'begin_parse', 'copy', 'to_builder', 'to_slice', '__eq__', '__hash__', 'data',
                '__getitem__', '__repr__', 'serialize', 'resolve_mask', 'get_refs_descriptor', 'get_bits_descriptor']


@obligation('C08.frame.cell', 'C08', cases=[{'m': m} for m in CELL_METHODS],
            fuc=[C + m for m in CELL_METHODS if m not in ('hash', 'data')],
            descr='frame(Cell.m) is empty: every accessor / conversion of a cell leaves its bits, refs, cached hashes, depths, '
                  'descriptors and data bytes untouched, and calling it twice gives the same result')
def frame_cell(w, m):
    from pytoniq_core.boc.exotic import LevelMask
    c, data, kids = _cell(w)
    snap = Snap(w, c)
    other, _, _ = _cell(w, 'o', 0)

    def do():
        if m in ('hash', 'data'):
            return getattr(c, m)
        if m in ('get_hash', 'get_depth'):
            return getattr(c, m)(w.choice('l', [0, 3]))
        if m == '__eq__':
            return c == other
        if m == '__getitem__':
            return c[0]
        if m == 'serialize':
            return c.serialize(IdMap(kids), 1)
        if m in ('get_descriptors', 'get_refs_descriptor'):
            return getattr(c, m)(LevelMask(0))
        if m == '__repr__' and w.symbolic:
            return None      # pretty printer: formats symbolic data through C code; not under contract
        return getattr(c, m)()
    k1, r1 = call(do)
    w.claim(f'{m} does not raise ({r1 if k1 != "ok" else ""})', k1 == 'ok')
    w.claim('cell untouched', snap.unchanged())
    k2, r2 = call(do)
    if k1 == 'ok' and k2 == 'ok' and m in ('hash', 'get_hash', 'get_depth', 'get_data_bytes', 'get_descriptors', 'data',
                                           'get_representation', 'calculate_representation_hash', '__hash__', 'serialize'):
        w.claim('same result when called again', r1 == r2)
    w.claim('cell untouched after the second call', snap.unchanged())
    w.claim('other cell untouched', len(other.refs) == 0)


@obligation('C08.frame.ctor', 'C08', cases=[{'plain': p, 'm8': m} for p in (True, False) for m in (0, 3)],
            fuc=[C + '__init__', C + 'get_data_bytes'],
            descr='Cell(bits, refs) leaves its arguments untouched — in particular a PLAIN bitarray of unaligned length is not '
                  'extended by the completion tag — and later mutation of a plain argument does not reach the cell')
def frame_ctor(w, plain, m8):
    import bitarray as _ba
    from pytoniq_core.boc.cell import Cell
    from pytoniq_core.boc.tvm_bitarray import TvmBitarray
    q = w.int('q', 0, 120)
    n = 8 * q + m8
    data = w.bits('D', n)
    arr = w.mk_bitarray(_ba.bitarray, data) if plain else w.mk_bitarray(TvmBitarray, data, 1023)
    kids = [abstract_child(w, 'k0')[0]]
    w.assume(kids[0]._depths[0] <= 1021)
    refs = list(kids)
    c = Cell(arr, refs)
    w.claim('bit array argument not modified', w.eq_seq(w.seq_of(arr), data))
    w.claim('refs argument not modified', same_objects(refs, kids))
    w.claim('cell holds the data', w.eq_seq(bits_of(w, c), data))
    h = c.hash
    if plain:
        w.claim('the cell does not alias the caller\'s plain array', c.bits is not arr)
        arr.append(1)
        w.claim('later mutation of the plain argument does not reach the cell', w.And(w.eq_seq(bits_of(w, c), data), c.hash == h))
    c.get_data_bytes(), c.begin_parse(), c.copy()
    w.claim('argument still untouched after using the cell', w.eq_seq(w.seq_of(arr), data + (E.lit('1') if plain else Seq())))


@obligation('C08.frame.args', 'C08', cases=[{'op': op} for op in ('store_cell', 'store_slice', 'store_ref', 'store_maybe_ref',
                                                                  'store_dict', 'Slice.from_cell', 'Slice(...)')],
            fuc=[B + 'store_cell', B + 'store_slice', B + 'store_ref', B + 'store_maybe_ref', B + 'store_dict', S + 'from_cell'],
            descr='operations that take another cell/slice as an argument leave that argument untouched, also when the receiver '
                  'is mutated afterwards')
def frame_args(w, op):
    from pytoniq_core.boc.slice import Slice
    from pytoniq_core.boc.builder import Builder
    c, data, kids = _cell(w, 'c', 1)
    snap = Snap(w, c)
    b = Builder()
    if op == 'store_slice':
        s = c.begin_parse()
        sb, sr, so = bits_of(w, s), list(s.refs), s.ref_offset
        b.store_slice(s)
        _mutate(w, b)
        w.claim('argument slice untouched', w.And(w.eq_seq(bits_of(w, s), sb), same_objects(s.refs, sr), s.ref_offset == so))
    elif op == 'Slice.from_cell':
        s = Slice.from_cell(c)
        _mutate(w, s)
    elif op == 'Slice(...)':
        s = Slice(c.bits.copy(), c.refs.copy())
        _mutate(w, s)
    else:
        getattr(b, op)(c)
        _mutate(w, b)
    w.claim('argument cell untouched', snap.unchanged())


# ---- no hidden state: static scan of the whole package -------------------------------------------------------------------

MUTATORS = {'append', 'extend', 'pop', 'update', 'add', 'clear', 'insert', 'remove', 'setdefault', 'fill', 'frombytes',
            'popitem', 'sort', 'reverse', 'discard', 'invert', 'setall'}


def _is_mutable_ctor(n):
    if isinstance(n, (ast.List, ast.Dict, ast.Set, ast.ListComp, ast.DictComp, ast.SetComp)):
        return True
    if isinstance(n, ast.Call):
        f = n.func
        name = f.id if isinstance(f, ast.Name) else (f.attr if isinstance(f, ast.Attribute) else '')
        return name in ('list', 'dict', 'set', 'bitarray', 'bytearray', 'TvmBitarray', 'defaultdict', 'OrderedDict', 'deque')
    return False


def _mutated_names(fn):
    """names that the function body mutates in place (subscript store, augmented assign on a name, mutator method call,
    del of an item)"""
    out = set()
    for n in ast.walk(fn):
        if isinstance(n, (ast.Assign, ast.AugAssign, ast.Delete)):
            targets = n.targets if isinstance(n, (ast.Assign, ast.Delete)) else [n.target]
            for t in targets:
                if isinstance(t, ast.Subscript) and isinstance(t.value, ast.Name):
                    out.add(t.value.id)
                if isinstance(n, ast.AugAssign) and isinstance(t, ast.Name):
                    out.add(t.id)
        if isinstance(n, ast.Call) and isinstance(n.func, ast.Attribute) and isinstance(n.func.value, ast.Name) \
                and n.func.attr in MUTATORS:
            out.add(n.func.value.id)
    return out


def scan_package(root):
    """returns (n_functions, findings): mutable default arguments that are mutated (directly, or by being passed on to a
    function of the package that mutates the corresponding parameter), and module/class-level containers mutated inside
    functions"""
    funcs = {}          # name -> list of FunctionDef (by simple name; over-approximation across modules)
    files = []
    for dp, _, fns in os.walk(root):
        for f in fns:
            if f.endswith('.py'):
                files.append(os.path.join(dp, f))
    trees = {}
    for p in sorted(files):
        with open(p) as fh:
            trees[p] = ast.parse(fh.read(), p)
        for n in ast.walk(trees[p]):
            if isinstance(n, (ast.FunctionDef, ast.AsyncFunctionDef)):
                funcs.setdefault(n.name, []).append(n)
    mut = {id(f): _mutated_names(f) for fs in funcs.values() for f in fs}

    def param_mutated(f, pname, depth=0):
        if pname in mut[id(f)]:
            return True
        if depth >= 3:
            return False
        # passed on positionally / by keyword to a package function that mutates that parameter
        for n in ast.walk(f):
            if isinstance(n, ast.Call):
                cname = n.func.id if isinstance(n.func, ast.Name) else (n.func.attr if isinstance(n.func, ast.Attribute) else None)
                for g in funcs.get(cname, []):
                    params = [a.arg for a in g.args.args]
                    shift = 1 if params[:1] in (['self'], ['cls']) and isinstance(n.func, ast.Attribute) else 0
                    for i, a in enumerate(n.args):
                        if isinstance(a, ast.Name) and a.id == pname and i + shift < len(params):
                            if param_mutated(g, params[i + shift], depth + 1):
                                return True
                    for kw in n.keywords:
                        if isinstance(kw.value, ast.Name) and kw.value.id == pname and kw.arg in params:
                            if param_mutated(g, kw.arg, depth + 1):
                                return True
        return False
    findings = []
    nf = 0
    for p, tree in trees.items():
        rel = os.path.relpath(p, root)
        module_level = {}
        for st in tree.body:
            if isinstance(st, ast.Assign) and _is_mutable_ctor(st.value):
                for t in st.targets:
                    if isinstance(t, ast.Name):
                        module_level[t.id] = st.lineno
        for n in ast.walk(tree):
            if isinstance(n, (ast.FunctionDef, ast.AsyncFunctionDef)):
                nf += 1
                args = n.args
                pos = args.posonlyargs + args.args
                for a, d in zip(pos[len(pos) - len(args.defaults):], args.defaults):
                    if _is_mutable_ctor(d) and param_mutated(n, a.arg):
                        findings.append(f'{rel}:{n.lineno} {n.name}({a.arg}=<mutable default>) is mutated: state leaks between calls')
                for a, d in zip(args.kwonlyargs, args.kw_defaults):
                    if d is not None and _is_mutable_ctor(d) and param_mutated(n, a.arg):
                        findings.append(f'{rel}:{n.lineno} {n.name}({a.arg}=<mutable default>) is mutated: state leaks between calls')
                local = {x.id for x in ast.walk(n) if isinstance(x, ast.Name) and isinstance(x.ctx, ast.Store)} | \
                        {a.arg for a in pos + args.kwonlyargs}
                for nm in mut[id(n)]:
                    if nm in module_level and nm not in local:
                        findings.append(f'{rel}:{n.lineno} {n.name} mutates module-level container {nm} (line {module_level[nm]})')
    return nf, findings


@obligation('C08.no_hidden_state', 'C08', fuc=['pytoniq_core (every function of the package: AST scan)'],
            descr='static, exhaustive over the package source: no mutable default argument is mutated (directly or through a '
                  'package function it is passed to, 3 levels), no module-level container is mutated inside a function; plus a '
                  'dynamic double-run of order / to_boc / dictionary parse showing results independent of earlier calls')
def no_hidden_state(w):
    from vf import loader
    nf, findings = scan_package(os.path.join(loader.REPO, 'pytoniq_core'))
    w.claim(f'{nf} functions scanned', nf > 300)
    w.claim('no mutated mutable default / module-level container: ' + '; '.join(findings[:4]), not findings)
    # dynamic: results of a call do not depend on calls made before
    from pytoniq_core.boc.builder import Builder
    c2 = Builder().store_uint(5, 7).end_cell()
    c1 = Builder().store_uint(9, 9).store_ref(Builder().store_uint(1, 2).end_cell()).end_cell()
    n1 = len(c1.order())
    n2 = len(c2.order())
    w.claim('order() of a leaf cell lists exactly that cell, whatever was ordered before', n2 == 1)
    w.claim('order() of a cell with one child lists two cells', n1 == 2)
    w.claim('order() again: same', len(c1.order()) == 2 and len(c2.order()) == 1)


@obligation('C08.dict_parse_twice', 'C08', fuc=['pytoniq_core.boc.hashmap.parse.parse_hashmap', 'pytoniq_core.boc.hashmap.parse.parse',
                                                'pytoniq_core.boc.hashmap.hashmap.HashMap.parse'],
            descr='parsing dictionaries repeatedly (one with a non-empty root label first): each result equals the source map '
                  'regardless of what was parsed before; values symbolic')
def dict_parse_twice(w):
    from pytoniq_core.boc.hashmap.hashmap import HashMap
    v = [w.int(f'v{i}', 0, 65535) for i in range(4)]
    d1 = HashMap(8).with_uint_values(16).set_int_key(3, v[0]).serialize()                 # single key: root label = whole key
    d2 = HashMap(8).with_uint_values(16).set_int_key(3, v[1]).set_int_key(200, v[2]).serialize()
    vd = lambda c: c.load_uint(16)
    for rnd in range(2):
        r1 = HashMap.parse(d1.begin_parse(), 8, None, vd)
        r2 = HashMap.parse(d2.begin_parse(), 8, None, vd)
        w.claim(f'round {rnd}: single-key map', list(r1.keys()) == [3] and (r1.get(3) == v[0] if 3 in r1 else False))
        w.claim(f'round {rnd}: two-key map', list(r2.keys()) == [3, 200] and
                (w.And(r2[3] == v[1], r2[200] == v[2]) if list(r2.keys()) == [3, 200] else False))


# ---- bounded stand-in: random histories -------------------------------------------------------------------------------

@obligation('C08.histories', 'C08', kind='bounded', samples=250,
            fuc=[C + '__init__', S + 'load_bits', S + 'load_ref', B + 'store_cell', B + 'store_slice', B + 'end_cell', C + 'to_boc',
                 C + 'order', 'pytoniq_core.boc.hashmap.hashmap.HashMap.parse'],
            descr='bounded: random histories (30 steps) over a pool of cells, slices and builders derived from one another (parse, '
                  'load, skip, to_builder, store, end_cell, copy, to_boc, order, from_boc, dictionary parse); after EVERY step every '
                  'live cell still has its recorded hash, bits, refs and serialisation')
def histories(w):
    import bitarray as _ba
    from pytoniq_core.boc.cell import Cell
    from pytoniq_core.boc.slice import Slice
    from pytoniq_core.boc.builder import Builder
    rng = w.rng
    cells, slices, builders, rec = [], [], [], {}

    def record(c):
        if id(c) not in rec:
            rec[id(c)] = (c, c.hash, c.bits.to01(), [id(r) for r in c.refs], c.to_boc())
            cells.append(c)
    b0 = Builder().store_uint(rng.getrandbits(13), 13)
    record(b0.end_cell())
    record(Cell(_ba.bitarray(format(rng.getrandbits(11), '011b')), []))
    log = []
    for step in range(30):
        op = rng.choice(['begin_parse', 'to_builder', 'copy', 'load', 'skip', 'load_ref', 'store_uint', 'store_ref', 'store_cell',
                         'store_slice', 'end_cell', 'to_cell', 'to_boc', 'order', 'from_boc', 'slice_copy', 'hash', 'dict'])
        log.append(op)
        try:
            if op == 'begin_parse':
                slices.append(rng.choice(cells).begin_parse())
            elif op == 'to_builder':
                builders.append(rng.choice(cells).to_builder())
            elif op == 'copy':
                record(rng.choice(cells).copy())
            elif op == 'load' and slices:
                rng.choice(slices).load_bits(rng.randrange(0, 9))
            elif op == 'skip' and slices:
                rng.choice(slices).skip_bits(rng.randrange(0, 5))
            elif op == 'load_ref' and slices:
                rng.choice(slices).load_ref()
            elif op == 'store_uint' and builders:
                rng.choice(builders).store_uint(rng.getrandbits(7), 7)
            elif op == 'store_ref' and builders:
                rng.choice(builders).store_ref(rng.choice(cells))
            elif op == 'store_cell' and builders:
                rng.choice(builders).store_cell(rng.choice(cells))
            elif op == 'store_slice' and builders and slices:
                rng.choice(builders).store_slice(rng.choice(slices))
            elif op == 'end_cell' and builders:
                record(rng.choice(builders).end_cell())
            elif op == 'to_cell' and slices:
                record(rng.choice(slices).to_cell())
            elif op == 'to_boc':
                rng.choice(cells).to_boc(rng.random() < .5, rng.random() < .5)
            elif op == 'order':
                rng.choice(cells).order()
            elif op == 'from_boc':
                record(Cell.one_from_boc(rng.choice(cells).to_boc()))
            elif op == 'slice_copy' and slices:
                slices.append(rng.choice(slices).copy())
            elif op == 'hash':
                c = rng.choice(cells)
                c.calculate_representation_hash(), c.get_data_bytes(), hash(c)
            elif op == 'dict' and cells:
                from pytoniq_core.boc.hashmap.hashmap import HashMap
                HashMap.parse(HashMap(8).with_uint_values(8).set_int_key(rng.getrandbits(8), 1).serialize().begin_parse(), 8)
        except Exception:
            pass            # refused operations (capacity, underflow) are fine; the invariant below is what matters
        for (c, h, bits, refs, boc) in list(rec.values()):
            ok = c.hash == h and c.bits.to01() == bits and [id(r) for r in c.refs] == refs
            if ok and len(rec) <= 12:
                now = c.to_boc()
                ok = now == boc
                if ok:      # and the serialisation denotes the cell (an independent look at it: the parser), whatever was serialised before
                    try:
                        ok = Cell.one_from_boc(now).hash == h
                    except Exception:
                        ok = False
            if not ok:
                w.used['history'] = log
                w.claim(f'a cell changed after step {step} ({op}) of history {log}', False)
                return
    w.claim('all cells unchanged throughout the history', True)


import harness.C04 as _C04
_so = REGISTRY['C04.shared_object']
obligation('C08.to_boc_history', 'C08', cases=_so.cases, fuc=_so.fuc, assumes=_so.assumes,
           descr='[no state carried between calls] ' + _so.descr)(_so.fn)
