"""C19 — work is bounded by the size of the input; every parser terminates.

Ghost counters (loader rewrite R3: a tick at every loop head and function entry of the functions listed in TICKED, applied in
memory to the source read from /repo on this run) turn "work" into a number a postcondition can bound:

* TL vector loop (deductive): for EVERY 32-bit length field and every short tail, TlSchemas.deserialize either raises or iterates at
  most once per remaining input byte.
* per-cell work (deductive): Cell.__init__ over abstract children performs a constant number of loop iterations - it never walks
  below its direct children, so hashing a DAG bottom-up is linear in cells + references.
* dictionary label parse (deductive): deserialize_hml performs at most (remaining bits + 1) unary-loop iterations.
* DAG traversal (BOUNDED, exact counts): Cell.order / to_boc loop iterations == n + e (+ n) on maximal-sharing ladders up to depth 400,
  random DAGs, and BoC -> to_boc re-serialisation; the induction over all DAGs is not within SMT reach (DESIGN.md section 8).
* adversarial byte strings (BOUNDED): BoC and TL parsers with count fields far larger than the input: ticks <= 8*len + 64.
"""
import importlib
from vf import loader
from vf.engine import obligation
from vf.spec import cell as SC, enc as E
from vf.bits import Seq
from harness.common import call, is_error, abstract_child, bits_of, mk_slice

TICKED = {
    ('pytoniq_core.boc.cell', 'Cell.order'), ('pytoniq_core.boc.cell', 'Cell.to_boc'), ('pytoniq_core.boc.cell', 'Cell.serialize'),
    ('pytoniq_core.boc.cell', 'Cell.calculate_hashes'), ('pytoniq_core.boc.cell', 'Cell.resolve_mask'),
    ('pytoniq_core.boc.cell', 'Cell.get_representation'), ('pytoniq_core.boc.cell', 'Cell.__eq__'), ('pytoniq_core.boc.cell', 'Cell.__hash__'),
    ('pytoniq_core.boc.cell', 'Cell.calculate_representation_hash'),
    ('pytoniq_core.boc.deserialize', 'Boc.deserialize'), ('pytoniq_core.boc.deserialize', 'Boc.deserialize_cell'),
    ('pytoniq_core.boc.deserialize', 'Boc.deserialize_boc_header'),
    ('pytoniq_core.tl.generator', 'TlSchemas.deserialize'), ('pytoniq_core.tl.generator', 'TlSchemas.serialize_field'),
    ('pytoniq_core.boc.hashmap.parse', 'deserialize_unary'), ('pytoniq_core.boc.hashmap.parse', 'deserialize_hml'),
    ('pytoniq_core.boc.hashmap.parse', 'parse'), ('pytoniq_core.boc.hashmap.parse', 'deserialize_hashmap_node'),
}
for _k in TICKED:
    loader.TICK_LOOPS[_k] = True

C = 'pytoniq_core.boc.cell.Cell.'
TLD = 'pytoniq_core.tl.generator.TlSchemas.deserialize'


def _vector_loop_key():
    """tick key of the loop `for _ in range(<length read from the data>)` in TlSchemas.deserialize, located in the AST of the
    source as it is on this run (None if the loop has a different shape: then all loops of the function are counted)"""
    import ast
    import os
    try:
        src = open(os.path.join(loader.REPO, 'pytoniq_core', 'tl', 'generator.py')).read()
        for node in ast.walk(ast.parse(src)):
            if isinstance(node, ast.FunctionDef) and node.name == 'deserialize':
                for sub in ast.walk(node):
                    if isinstance(sub, ast.For) and isinstance(sub.iter, ast.Call) and getattr(sub.iter.func, 'id', '') == 'range' \
                            and len(sub.iter.args) == 1 and isinstance(sub.iter.args[0], ast.Name):
                        return f'TlSchemas.deserialize:loop@{sub.lineno}'
    except OSError:
        pass
    return None


def _reset(w):
    if not w.symbolic:
        loader.GLOBAL_TICKS.clear()


# ---- TL vector loop ---------------------------------------------------------------------------------------------------

@obligation('C19.tl_vector', 'C19', cases=[{'elem': e, 'tail': t} for e in ('int', 'long', 'int256', 'tonNode.blockIdExt', 'liteServer.accountId', 'bytes', 'http.header') for t in (0, 3, 8) if not (e in ('http.header', 'bytes') and t == 8)],
            fuc=[TLD], budget={'seconds': 60, 'paths': 2000},
            descr='TlSchemas.deserialize of a (vector T) field whose 32-bit length field is SYMBOLIC over its whole range, followed by a tail '
                  'of 0, 3 or 8 symbolic bytes (T: int, long, int256, two fixed-width bare composites, bytes, and a bare composite with no fixed-width field; boxed elements are exercised by the bounded adversarial obligation): the call raises or performs at most '
                  'len(input) + 1 loop iterations - the work is bounded by the input, not by the count read from it')
def tl_vector(w, elem, tail):
    G = importlib.import_module('pytoniq_core.tl.generator')
    schemas = G.TlGenerator.with_default_schemas().generate()
    schemas._auto_deserialize = False
    L = w.int('L', 0, (1 << 32) - 1)
    tl = w.bytes('tail', tail)
    if w.symbolic:
        from vf.bits import SymBytes, Val
        from vf.sym import _z
        # little-endian 4-byte length: bytes b0..b3 with L = b0 + 256 b1 + ...
        bs = [w.int(f'b{i}', 0, 255) for i in range(4)]
        w.assume(L == bs[0] + 256 * bs[1] + 65536 * bs[2] + 16777216 * bs[3])
        data = SymBytes([Val(8, b.e) for b in bs]) + tl
    else:
        data = int(L).to_bytes(4, 'little') + tl
    _reset(w)
    if w.symbolic:
        k, r = call(schemas.deserialize, data, False, {'v': f'(vector {elem})'})
    else:       # natively a runaway loop is cut by a tick cap (reported as a violated bound, never a hang)
        k, r = _capped(schemas.deserialize, (data, False, {'v': f'(vector {elem})'}), 4 + tail)
    vk = _vector_loop_key()
    # the vector loop itself: at most one iteration per remaining input byte; all loops of the (recursive) parser together:
    # at most (fields per element <= 16) times that
    ticks = w.tick_count(vk) if vk else w.tick_count('TlSchemas.deserialize:loop') // 16
    n = 4 + tail
    if k == 'cap':
        w.claim(f'loop iterations bounded by the input length (tick cap hit: > {ticks - 1} iterations for {n} input bytes)', False)
        return
    if k == 'ok':
        w.cover('returns')
        w.claim('loop iterations bounded by the input length', ticks <= n + 1)
        w.claim('at most as many elements as remaining bytes', len(r[0]['v']) <= tail)
    else:
        w.cover('raises')
        w.claim('refuses with an error, not a crash', is_error(r))
        w.claim('loop iterations bounded by the input length', ticks <= n + 1)


# ---- BoC header: loops driven by count fields ---------------------------------------------------------------------------

@obligation('C19.boc_header', 'C19', cases=[{'idx': i, 'size': sz, 'tail': 0} for i in (0, 1) for sz in (1, 2, 3, 4)],
            fuc=['pytoniq_core.boc.deserialize.Boc.deserialize_boc_header'], budget={'seconds': 60, 'paths': 1500},
            descr='deserialize_boc_header on a generic-magic header whose cells / roots / absent counts and total size are SYMBOLIC over '
                  'their full width (size 1..4 bytes), with or without the index flag, and nothing after the header (headers followed by data are exercised by the bounded adversarial obligation): the call raises '
                  'or performs at most len(input) iterations of its root-list and index comprehensions - a count field larger than the '
                  'input never drives a loop')
def boc_header(w, idx, size, tail):
    D = importlib.import_module('pytoniq_core.boc.deserialize')
    off = 1
    cells = w.int('cells', 0, (1 << (8 * size)) - 1)
    roots = w.int('roots', 0, (1 << (8 * size)) - 1)
    absent = w.int('absent', 0, (1 << (8 * size)) - 1)
    tot = w.int('tot', 0, 255)
    tl = w.bytes('tail', tail)
    head = bytes.fromhex('b5ee9c72') + bytes([(128 if idx else 0) | size, off])
    if w.symbolic:
        from vf.bits import SymBytes
        from vf.spec import enc as E_
        body = SymBytes.make(E_.uint(cells, 8 * size) + E_.uint(roots, 8 * size) + E_.uint(absent, 8 * size) + E_.uint(tot, 8))
        data = head + body + tl
    else:
        data = head + cells.to_bytes(size, 'big') + roots.to_bytes(size, 'big') + absent.to_bytes(size, 'big') + bytes([tot]) + tl
    n = 6 + 3 * size + 1 + tail
    _reset(w)
    if w.symbolic:
        k, r = call(D.Boc.deserialize_boc_header, data)
    else:
        k, r = _capped(D.Boc.deserialize_boc_header, (data,), n)
    ticks = w.tick_count('Boc.deserialize_boc_header:loop')
    if k == 'cap':
        w.claim(f'loop iterations bounded by the input length (tick cap hit after {ticks} iterations for {n} input bytes)', False)
        return
    w.claim('comprehension iterations bounded by the input length', ticks <= n + 3)
    if k != 'ok':
        w.claim('refuses with an error, not a crash', is_error(r))


# ---- per-cell work -------------------------------------------------------------------------------------------------------

CELL_CASES = [{'type_': -1, 'kids': k} for k in (['o0'] * 0, ['o0'], ['o7', 'p3'], ['o5', 'o0', 'p1', 'o3'])] + \
             [{'type_': 3, 'kids': ['o3']}, {'type_': 4, 'kids': ['p7', 'o6']}]


@obligation('C19.cell_work', 'C19', cases=CELL_CASES, fuc=[C + '__init__', C + 'calculate_hashes', C + 'resolve_mask'],
            descr='Cell.__init__ over ABSTRACT children (any sub-DAG below them): the number of loop iterations in resolve_mask and '
                  'calculate_hashes is at most 4 + (levels <= 4) * (1 + 2 * refs) <= 40, on every path - the constructor never walks below '
                  'its direct children, so building/hashing a DAG bottom-up costs O(cells + references)')
def cell_work(w, type_, kids):
    from pytoniq_core.boc.cell import Cell
    from pytoniq_core.boc.tvm_bitarray import TvmBitarray
    ch = []
    for i, c in enumerate(kids):
        kind = 'plain' if c[0] == 'o' else 'pruned'
        cell, obs = abstract_child(w, f'k{i}', kind, int(c[1]))
        for l in range(4):
            w.assume(obs.depth_at(l) <= 500)
        ch.append(cell)
    if type_ == -1:
        bits = w.bits('D', 8 * w.int('q', 0, 100) + 3)
    elif type_ == 3:
        bits = E.lit('00000011') + w.bits('vh', 256) + w.bits('vd', 16)
    else:
        bits = E.lit('00000100') + w.bits('vh', 512) + w.bits('vd', 32)
    _reset(w)
    k, c = call(Cell, w.mk_bitarray(TvmBitarray, bits, 1023), ch, type_)
    ticks = w.tick_count('Cell.calculate_hashes:loop') + w.tick_count('Cell.resolve_mask:loop')
    w.claim('constructed', k == 'ok')
    w.claim('constant work per cell', ticks <= 4 + 4 * (1 + 2 * len(kids)))
    if k == 'ok' and type_ == -1:
        # the explicit recomputation uses the children's CACHED hashes and depths: it never descends (the children here are
        # abstract - only their cached fields exist - so any walk below them leaves the contract)
        _reset(w)
        k2, h2 = call(c.calculate_representation_hash)
        w.claim(f'calculate_representation_hash() does not raise ({h2 if k2 != "ok" else ""})', k2 == 'ok')
        w.claim('calculate_representation_hash(): one representation, one pass over the direct children',
                w.tick_count('Cell.get_representation:call') <= 1 and w.tick_count('Cell.get_representation:loop') <= len(kids)
                and w.tick_count('Cell.calculate_representation_hash:call') <= 1)


# ---- dictionary label parse -------------------------------------------------------------------------------------------

@obligation('C19.label', 'C19', cases=[{'m': m, 'n': n} for m in (0, 1, 16, 1023) for n in (0, 3, 20) if not (m == 1023 and n == 20)],
            fuc=['pytoniq_core.boc.hashmap.parse.deserialize_hml', 'pytoniq_core.boc.hashmap.parse.deserialize_unary'],
            descr='deserialize_hml on a slice of n SYMBOLIC bits (n = 0, 3, 20) for remaining key lengths m = 0, 1, 16, 1023: it raises or '
                  'returns after at most n + 1 unary-loop iterations (bounded by the bits present, whatever length the label claims)')
def label(w, m, n):
    P = importlib.import_module('pytoniq_core.boc.hashmap.parse')
    s = mk_slice(w, w.bits('B', n))
    _reset(w)
    k, r = call(P.deserialize_hml, s, m)
    ticks = w.tick_count('deserialize_unary:loop')
    w.claim('unary loop bounded by the bits present', ticks <= n + 1)
    if k != 'ok':
        w.claim('refuses with an error, not a crash', is_error(r))


# ---- DAG traversal (bounded) ----------------------------------------------------------------------------------------------

@obligation('C19.dag', 'C19', kind='bounded', samples=40,
            fuc=[C + 'order', C + 'to_boc', C + 'serialize', 'pytoniq_core.boc.deserialize.Boc.deserialize'],
            descr='bounded, native, exact counts: for maximal-sharing ladders (both references to the same child) of depth 1..400, diamonds, '
                  'random DAGs with up to 300 cells and chains of depth 1000: loop iterations of Cell.order == (n + e) + n, of to_boc <= '
                  '2n + e + n, of the BoC parser <= 4n + e + 8 (n distinct cells, e references); re-serialising a parsed 133-byte ladder of '
                  '21 cells stays within these bounds')
def dag(w):
    from pytoniq_core.boc.cell import Cell
    from pytoniq_core.boc.builder import Builder
    rng = w.rng
    kind = rng.choice(['ladder', 'ladder', 'ladder_exotic', 'ladder_exotic', 'random', 'chain', 'diamond'])
    if kind in ('ladder', 'ladder_exotic'):
        d = rng.choice([1, 2, 20, 21, 60, 200, 400])
        c = Builder().store_uint(1, 8).end_cell()
        if kind == 'ladder_exotic':
            # the shared cells sit above a pruned branch (non-zero level masks all the way up), the whole below a Merkle proof,
            # or above a library reference cell
            leaf_kind = rng.choice(['pruned1', 'pruned3', 'library'])
            if leaf_kind == 'library':
                c = Builder(type_=2).store_uint(2, 8).store_bytes(bytes(rng.getrandbits(8) for _ in range(32))).end_cell()
            else:
                m = int(leaf_kind[-1])
                k_ = bin(m).count('1')
                b_ = Builder(type_=1).store_uint(1, 8).store_uint(m, 8)
                for _ in range(k_):
                    b_.store_bytes(bytes(rng.getrandbits(8) for _ in range(32)))
                for _ in range(k_):
                    b_.store_uint(rng.randrange(0, 50), 16)
                c = b_.end_cell()
            d = min(d, 200)
        for i in range(d):
            c = Builder().store_uint(i & 255, 8).store_ref(c).store_ref(c).end_cell()
        if kind == 'ladder_exotic' and leaf_kind != 'library' and rng.random() < 0.6:
            c = Builder(type_=3).store_uint(3, 8).store_bytes(c.get_hash(0)).store_uint(c.get_depth(0), 16).store_ref(c).end_cell()
        root = c
    elif kind == 'chain':
        d = rng.choice([10, 500, 1000])
        c = Builder().store_uint(7, 8).end_cell()
        for i in range(d):
            c = Builder().store_uint(i & 255, 8).store_ref(c).end_cell()
        root = c
    elif kind == 'diamond':
        leaf = Builder().store_uint(9, 8).end_cell()
        mids = [Builder().store_uint(i, 8).store_ref(leaf).end_cell() for i in range(4)]
        root = Builder().store_refs(mids).end_cell() if hasattr(Builder, 'store_refs') else Builder().store_ref(mids[0]).store_ref(mids[1]).store_ref(mids[2]).store_ref(mids[3]).end_cell()
    else:
        n = rng.randrange(1, 300)
        cells = []
        for i in range(n):
            b = Builder().store_uint(rng.getrandbits(32), 32).store_uint(i, 16)
            for _ in range(rng.choice([0, 1, 2, 4]) if cells else 0):
                b.store_ref(rng.choice(cells[-8:] if rng.random() < 0.7 else cells))
            cells.append(b.end_cell())
        root = cells[-1]
    # n, e of the DAG (independent count)
    seen, stack, e = {id(root): root}, [root], 0
    while stack:
        x = stack.pop()
        for r in x.refs:
            e += 1
            if id(r) not in seen and r.hash not in {None}:
                seen[id(r)] = r
                stack.append(r)
    n = len({c.hash for c in seen.values()})
    e = sum(len(c.refs) for c in {c.hash: c for c in seen.values()}.values())
    loader.GLOBAL_TICKS.clear()
    kk, order = _capped(root.order, (), 10 * (n + e) + 100)
    t_order = w.tick_count('Cell.order:loop')
    if kk != 'ok':
        w.claim(f'order: loop iterations == (n + e) + n ({kind}: n={n}, e={e}: run-away, tick cap hit at {t_order})', False)
        return
    w.claim(f'order visits each cell once ({kind})', len(order) == n)
    w.claim(f'order: loop iterations == (n + e) + n ({kind}: n={n}, e={e}, ticks={t_order})', t_order == (n + e) + n)
    loader.GLOBAL_TICKS.clear()
    loader.TICK_CAP[0] = 40 * (n + e) + 1000
    try:
        boc = root.to_boc(has_idx=bool(rng.getrandbits(1)), hash_crc32=bool(rng.getrandbits(1)))
    finally:
        loader.TICK_CAP[0] = None
    t_boc = w.tick_count('Cell.to_boc:loop') + w.tick_count('Cell.serialize:loop') + w.tick_count('Cell.order:loop')
    w.claim(f'to_boc: loop iterations <= 4n + 2e ({kind}: n={n}, e={e}, ticks={t_boc})', t_boc <= 4 * n + 2 * e)
    loader.GLOBAL_TICKS.clear()
    back = Cell.one_from_boc(boc)
    t_parse = sum(v for k_, v in loader.GLOBAL_TICKS.items() if k_.startswith('Boc.') and ':loop' in k_)
    w.claim(f'BoC parse: loop iterations <= 4n + 2e + 16 ({kind}: ticks={t_parse})', t_parse <= 4 * n + 2 * e + 16)
    w.claim('round trip', back.hash == root.hash)
    loader.GLOBAL_TICKS.clear()
    again = back.to_boc()
    t2 = w.tick_count('Cell.order:loop')
    w.claim(f're-serialising the parsed DAG: order iterations == (n + e) + n (ticks={t2})', t2 == (n + e) + n)


# ---- adversarial byte strings (bounded) -----------------------------------------------------------------------------------

@obligation('C19.adversarial', 'C19', kind='bounded', samples=250,
            fuc=['pytoniq_core.boc.deserialize.Boc.deserialize', 'pytoniq_core.boc.deserialize.Boc.deserialize_boc_header',
                 'pytoniq_core.boc.deserialize.Boc.deserialize_cell', TLD],
            descr='bounded, native: byte strings of up to 300 bytes built around valid BoC / TL prefixes with count and length fields '
                  'replaced by huge values (cells, roots, index entries, vector lengths 2^31..2^32-1, string lengths), truncations, well-formed TL messages with packed objects nested up to 30 deep, and '
                  'random tails: every parser call returns or raises after at most 8*len + 64 loop iterations (tick cap, no wall clock)')
def adversarial(w):
    from pytoniq_core.boc.cell import Cell
    from pytoniq_core.boc.builder import Builder
    G = importlib.import_module('pytoniq_core.tl.generator')
    rng = w.rng
    which = rng.choice(['boc', 'tl', 'tl'])
    if which == 'boc':
        c = Builder().store_uint(rng.getrandbits(64), 64).end_cell()
        for i in range(rng.randrange(0, 6)):
            c = Builder().store_uint(i, 8).store_ref(c).store_ref(c).end_cell()
        data = bytearray(c.to_boc(has_idx=bool(rng.getrandbits(1)), hash_crc32=False))
        mode = rng.choice(['counts', 'random', 'trunc', 'magic'])
        if mode == 'counts':
            size = data[4] & 7
            if rng.random() < 0.5:          # widen the size field itself and re-lay the header with huge counts, index on or off
                size = rng.choice([3, 4])
                fl = (0x80 if rng.random() < 0.7 else 0) | size
                fields = [rng.choice([(1 << (8 * size)) - 1, 1, 0, rng.getrandbits(8 * size)]) for _ in range(3)]
                data = bytearray(bytes.fromhex('b5ee9c72') + bytes([fl, 1]) + b''.join(f.to_bytes(size, 'big') for f in fields) +
                                 bytes([rng.getrandbits(8)]) + bytes(rng.getrandbits(8) for _ in range(rng.randrange(0, 12))))
            else:
                for pos in [p_ for p_ in (6, 6 + size, 6 + 2 * size, 6 + 3 * size) if rng.random() < 0.5]:
                    for j in range(rng.choice([1, size])):
                        if pos + j < len(data):
                            data[pos + j] = 0xFF
        elif mode == 'random':
            for _ in range(rng.randrange(1, 6)):
                data[rng.randrange(len(data))] = rng.getrandbits(8)
        elif mode == 'trunc':
            del data[rng.randrange(0, len(data)):]
        else:
            data[:4] = rng.choice([bytes.fromhex('68ff65f3'), bytes.fromhex('acc3a728')])
        data = bytes(data)
        loader.GLOBAL_TICKS.clear()
        k, r = _capped(Cell.from_boc, (data,), 8 * len(data) + 64)
        t = sum(v for k_, v in loader.GLOBAL_TICKS.items() if ':loop' in k_)
        w.claim(f'BoC parser work bounded by the input (len={len(data)}, ticks={t})', t <= 8 * len(data) + 64)
    else:
        schemas = _schemas(G)
        mode = rng.choice(['vector', 'vector', 'bytes', 'random', 'nested', 'nested'])
        if mode == 'nested':
            # a WELL-FORMED message: bytes fields holding several packed objects, nested d levels deep (auto-deserialise mode); any
            # re-parsing of already parsed nested objects multiplies the work per level
            d = rng.choice([4, 10, 18, 26, 30])
            sa = _schemas(G)
            sa._auto_deserialize = True
            tail = sa.serialize(sa.get_by_name('overlay.emptyCertificate'), {})
            inner = sa.serialize(sa.get_by_name('dht.ping'), {'random_id': rng.getrandbits(60)})
            for _ in range(d):
                inner = sa.serialize(sa.get_by_name('adnl.message.custom'), {'data': inner + tail})
            loader.GLOBAL_TICKS.clear()
            k, r = _capped(sa.deserialize, (inner,), 16 * len(inner) + 64)
            sa._auto_deserialize = False
            t = sum(v for k_, v in loader.GLOBAL_TICKS.items() if k_.startswith('TlSchemas.deserialize') and ':loop' in k_)
            w.claim(f'TL parser work on nested packed objects bounded by the input (depth={d}, len={len(inner)}, ticks={t})',
                    k != 'cap' and t <= 16 * len(inner) + 64)
            return
        if mode == 'vector':
            elem = rng.choice(['int', 'long', 'int256', 'tonNode.blockIdExt', 'adnl.Message', 'bytes'])
            L = rng.choice([0xFFFFFFFF, 0x80000000, 0x7FFFFFFF, 1 << 24, 1000, 5])
            data = L.to_bytes(4, 'little') + bytes(rng.getrandbits(8) for _ in range(rng.randrange(0, 40)))
            args = (data, False, {'v': f'(vector {elem})'})
        elif mode == 'bytes':
            ln = rng.choice([0xFFFFFF, 0x10000, 300])
            data = b'\xfe' + ln.to_bytes(3, 'little') + bytes(rng.getrandbits(8) for _ in range(rng.randrange(0, 40)))
            args = (data, False, {'v': 'bytes'})
        else:
            sch = rng.choice(schemas.list)
            data = (sch.little_id() if not sch.is_empty() else b'\0\0\0\0') + bytes(rng.choice([0xFF, 0, rng.getrandbits(8)]) for _ in range(rng.randrange(0, 120)))
            args = (data,)
        loader.GLOBAL_TICKS.clear()
        k, r = _capped(schemas.deserialize, args, 8 * len(data) + 64)
        t = sum(v for k_, v in loader.GLOBAL_TICKS.items() if k_.startswith('TlSchemas.deserialize') and ':loop' in k_)
        w.claim(f'TL parser work bounded by the input (mode={mode}, len={len(data)}, ticks={t})', t <= 8 * len(data) + 64)


_SCH = []


def _schemas(G):
    if not _SCH:
        _SCH.append(G.TlGenerator.with_default_schemas().generate())
    return _SCH[0]


@obligation('C19.twins', 'C19', kind='bounded', samples=12,
            fuc=[C + 'order', C + 'to_boc', C + '__eq__', C + '__hash__', 'pytoniq_core.boc.deserialize.Boc.deserialize'],
            descr='bounded, native, ghost counters: a DAG that holds every cell twice as two EQUAL but DISTINCT objects, cross-wired '
                  '(a_j = [a_{j-1}, b_{j-1}], b_j = [b_{j-1}, a_{j-1}], depth 12..60; built directly, and parsed from a bag that lists '
                  'every cell twice): comparing the twins, ordering, serialising and re-parsing perform a number of Cell.__eq__ / '
                  '__hash__ calls and loop iterations linear in cells + references (equality that walks the shared sub-DAG once per '
                  'path is exponential here although two references to the very same object stay cheap)')
def twins(w):
    from pytoniq_core.boc.cell import Cell
    from pytoniq_core.boc.builder import Builder
    rng = w.rng
    d = rng.choice([12, 25, 40, 60])
    a = Builder().store_uint(1, 8).end_cell()
    b = Builder().store_uint(1, 8).end_cell()
    for i in range(d):
        a, b = (Builder().store_uint(i & 255, 8).store_ref(a).store_ref(b).end_cell(),
                Builder().store_uint(i & 255, 8).store_ref(b).store_ref(a).end_cell())
    root = Builder().store_ref(a).store_ref(b).end_cell()
    n_obj, e_obj = 2 * (d + 1) + 1, 4 * d + 2
    cap = 40 * (n_obj + e_obj) + 2000
    w.used['depth'] = d

    def total():
        return sum(v for k, v in loader.GLOBAL_TICKS.items() if k.startswith('Cell.'))
    steps = [('a == b', lambda: a == b), ('hash(a) == hash(b)', lambda: hash(a) == hash(b)), ('order', lambda: root.order()),
             ('to_boc', lambda: root.to_boc()), ('set of both twins', lambda: len({a, b})),
             ('calculate_representation_hash', lambda: root.calculate_representation_hash()),
             ('get_representation', lambda: root.get_representation())]
    data = None
    for nm, fn in steps:
        loader.GLOBAL_TICKS.clear()
        kk, r = _capped(fn, (), cap)
        w.claim(f'{nm}: work linear in cells + references (depth {d}: {total()} ticks, cap {4 * cap + 1000})', kk != 'cap')
        if kk == 'cap':
            return
        w.claim(f'{nm}: does not raise ({r if kk == "raise" else ""})', kk == 'ok')
        if nm == 'to_boc' and kk == 'ok':
            data = r
        if nm == 'a == b' and kk == 'ok':
            w.claim('the twins are equal', r is True)
    # a bag that lists every cell twice (a conforming encoder need not merge equal cells): parse, then serialise the parsed DAG
    from vf.spec import boc as SB_
    bag = _twin_bag(d)
    loader.GLOBAL_TICKS.clear()
    kk, r = _capped(Cell.one_from_boc, (bag,), cap)
    w.claim(f'parse of a {len(bag)}-byte bag listing every cell twice: work linear ({total()} ticks)', kk != 'cap')
    if kk != 'ok':
        w.claim(f'the bag parses ({r})', kk == 'cap')
        return
    loader.GLOBAL_TICKS.clear()
    k2, r2 = _capped(r.to_boc, (), cap)
    w.claim(f're-serialising the parsed twin DAG: work linear ({total()} ticks)', k2 != 'cap')
    if k2 == 'ok':
        w.claim('re-serialised bag parses to the same root', Cell.one_from_boc(r2).hash == r.hash)


def _twin_bag(d):
    """serialized_boc (generic magic, no index) of: root -> [a_d, b_d]; a_j -> [a_{j-1}, b_{j-1}], b_j -> [b_{j-1}, a_{j-1}]; a_0, b_0
    leaves with equal data.  Cells numbered root=0, a_j = 1 + 2*(d-j), b_j = 2 + 2*(d-j)."""
    n = 2 * (d + 1) + 1
    ia = lambda j: 1 + 2 * (d - j)
    ib = lambda j: 2 + 2 * (d - j)
    cells = [bytes([2, 0, ia(d), ib(d)])]
    for j in range(d, 0, -1):
        cells.append(bytes([2, 2, (j - 1) & 255, ia(j - 1), ib(j - 1)]))
        cells.append(bytes([2, 2, (j - 1) & 255, ib(j - 1), ia(j - 1)]))
    cells.append(bytes([0, 2, 1]))
    cells.append(bytes([0, 2, 1]))
    payload = b''.join(cells)
    off = 2 if len(payload) > 255 else 1
    assert n < 256
    return bytes.fromhex('b5ee9c72') + bytes([1, off, n, 1, 0]) + len(payload).to_bytes(off, 'big') + bytes([0]) + payload


def _capped(fn, args, cap):
    """run fn natively under a tick cap of 4*cap + 1000 per loop head: ('ok', value) | ('raise', exc) | ('cap', None)"""
    loader.TICK_CAP[0] = 4 * cap + 1000
    try:
        return 'ok', fn(*args)
    except loader.TickCap:
        return 'cap', None
    except Exception as e:
        return 'raise', e
    finally:
        loader.TICK_CAP[0] = None
