"""C01 — cell hash and depth are the TON representation hash and depth (ordinary cells, every construction route).

Children are ABSTRACT cells of which only the class invariant is known (symbolic hash, symbolic depth 0..1023), the
data is an opaque bit string of symbolic length; so each discharged unit holds for every DAG below the cell, and by
structural induction for every DAG shape and depth.  Specification: vf/spec/cell.py (from the TON documents).
"""
from vf.engine import obligation
from vf.spec import cell as SC, enc as E
from vf.bits import Seq
from harness.common import (mk_builder, mk_slice, bits_of, call, Child, is_error, same_objects, abstract_cell,
                            abstract_child)

C = 'pytoniq_core.boc.cell.Cell.'
L = 'pytoniq_core.boc.exotic.LevelMask.'
B = 'pytoniq_core.boc.builder.Builder.'
S = 'pytoniq_core.boc.slice.Slice.'
INIT = [C + '__init__', C + 'resolve_mask', C + 'calculate_hashes', C + 'get_descriptors', C + 'get_refs_descriptor',
        C + 'get_bits_descriptor', C + 'get_data_bytes', C + 'get_hash', C + 'get_depth', L + '__init__', L + 'apply',
        L + 'get_level', L + 'get_hash_index', L + 'is_significant', 'pytoniq_core.boc.tvm_bitarray.TvmBitarray.to_bitarray']
SHAPES = [{'r': r, 'm8': m} for r in range(5) for m in range(8)]


def _data(w, m8):
    q = w.int('q', 0, 127)
    b = 8 * q + m8
    w.assume(b <= 1023)
    return b, w.bits('D', b)


def _kids(w, r):
    pairs = [abstract_child(w, f'k{i}') for i in range(r)]
    return [p[0] for p in pairs], [p[1] for p in pairs]


def _spec(w, bits, b, m8, obs):
    hs, ds = SC.level_hashes(w, SC.ORDINARY, 0, bits, b, m8, obs)
    return hs[0], ds[0]


def _claim_cell(w, c, bits, b, m8, kids, obs, label=''):
    """the cell reports the specification hash/depth of (bits, kids) through every accessor"""
    h, d = _spec(w, bits, b, m8, obs)
    w.claim(label + 'hash == SHA256(d1 d2 pad(bits) depths hashes)', c.hash == h)
    w.claim(label + 'depth == 0 | 1 + max child depth', c.get_depth(0) == d)
    for l in range(4):
        w.claim(label + f'get_hash({l})', c.get_hash(l) == h)
        w.claim(label + f'get_depth({l})', c.get_depth(l) == d)
    w.claim(label + 'level mask 0', c.level_mask.mask == 0)
    w.claim(label + 'refs are the children', same_objects(c.refs, kids))
    w.claim(label + 'bits are the data', w.eq_seq(bits_of(w, c), bits))
    return h, d


@obligation('C01.init', 'C01', cases=SHAPES, fuc=INIT,
            descr='Cell(bits, refs): for symbolic data of every length b = 8q+m8 and r abstract children, the cached and '
                  'reported hash is SHA-256 of the TON representation and the depth is 1+max; raises iff depth >= 1024',
            assumes=['T3: SHA-256 as an uninterpreted deterministic function (equal inputs <=> same term)'])
def init(w, r, m8):
    from pytoniq_core.boc.cell import Cell, CellError
    from pytoniq_core.boc.tvm_bitarray import TvmBitarray
    b, bits = _data(w, m8)
    kids, obs = _kids(w, r)
    k, c = call(Cell, w.mk_bitarray(TvmBitarray, bits, 1023), kids)
    deepest = 0
    for o in obs:
        deepest = w.ite(o.depth_at(0) > deepest, o.depth_at(0), deepest)
    too_deep = (deepest + 1 >= 1024) if r else False
    if k == 'raise':
        w.cover('raise')
        w.claim('raises only when the depth would reach 1024', too_deep)
        w.claim(f'exception is CellError ({type(c).__name__}: {c})', isinstance(c, CellError))
        return
    w.cover('ok')
    w.claim('depth >= 1024 is refused', w.Not(too_deep))
    _claim_cell(w, c, bits, b, m8, kids, obs)
    k2, h2 = call(c.calculate_representation_hash)
    w.claim('recomputed representation hash agrees with the cached one', k2 == 'ok' and h2 == c.hash)
    # the descriptor accessors called the way a user calls them (default arguments): d1 = r + 8s + 32l with s = l = 0, d2
    k3, dd = call(c.get_descriptors)
    w.claim('get_descriptors() == d1 d2 of the representation', k3 == 'ok' and
            w.eq_seq(w.bytes_seq(dd), E.uint(SC.d1(r, False, 0), 8) + E.uint(SC.d2(b), 8)))
    k4, d1_ = call(c.get_refs_descriptor, c.level_mask)
    w.claim('get_refs_descriptor(own mask) == d1', k4 == 'ok' and w.eq_seq(w.bytes_seq(d1_), E.uint(SC.d1(r, False, 0), 8)))


@obligation('C01.padded_twin', 'C01', cases=[{'r': r, 'm8': m, 'first': f} for r in (0, 1) for m in (1, 4, 7) for f in ('unaligned', 'aligned')],
            fuc=INIT, assumes=['T3: SHA-256 as an uninterpreted deterministic function (equal inputs <=> same term)'],
            descr='history independence of hashing: two DIFFERENT cells whose tag-padded data bytes coincide - A with 8q+m8 data bits and B '
                  'whose 8(q+1) data bits are exactly pad(A) - are created one after the other (both orders), with the same children: each '
                  'reports the specification hash of its OWN bit string (they differ in d2), and the two are unequal (a digest remembered '
                  'under the padded bytes alone would hand one cell the hash of the other)')
def padded_twin(w, r, m8, first):
    from pytoniq_core.boc.cell import Cell
    from pytoniq_core.boc.tvm_bitarray import TvmBitarray
    b, bits = _data(w, m8)
    w.assume(b + 8 - m8 <= 1023)          # the padded twin must itself fit a cell
    padded = SC.pad(bits, m8)
    kids, obs = _kids(w, r)
    for o in obs:
        w.assume(o.depth_at(0) <= 1000)
    mk = {'unaligned': lambda: Cell(w.mk_bitarray(TvmBitarray, bits, 1023), list(kids)),
          'aligned': lambda: Cell(w.mk_bitarray(TvmBitarray, padded, 1023), list(kids))}
    second = 'aligned' if first == 'unaligned' else 'unaligned'
    cells = {first: mk[first]()}
    cells[second] = mk[second]()
    _claim_cell(w, cells['unaligned'], bits, b, m8, kids, obs, 'unaligned cell: ')
    _claim_cell(w, cells['aligned'], padded, b - m8 + 8, 0, kids, obs, 'aligned cell: ')
    if not w.symbolic:      # with the real SHA-256 (symbolically the digest is uninterpreted: distinct inputs may collide)
        w.claim('the two cells are different values', cells['aligned'].hash != cells['unaligned'].hash)


@obligation('C01.eq_hash', 'C01', fuc=[C + '__eq__', C + '__hash__', C + 'hash'],
            descr='two cells (abstract: any content) compare equal exactly when their hashes are equal, and equal hashes '
                  'give equal __hash__ values (so they collide as dictionary keys exactly then)')
def eq_hash(w):
    a = abstract_cell(w, 'a', nrefs=w.choice('ra', [0, 2]))
    b = abstract_cell(w, 'b', nrefs=w.choice('rb', [0, 3]))
    same = a.hash == b.hash
    e = a == b
    w.claim('__eq__ <=> equal hashes', w.And(w.Implies(e, same), w.Implies(same, e)))
    ne = a != b
    w.claim('!= is the negation', w.And(w.Implies(ne, w.Not(same)), w.Implies(w.Not(same), ne)))
    ha, hb = a.__hash__(), b.__hash__()
    w.claim('equal hashes => equal __hash__', w.Implies(same, ha == hb))
    w.claim('__hash__ is an int determined by the hash', ha == int.from_bytes(a.hash, 'big') if not w.symbolic else
            w.And(ha >= 0, w.Implies(ha == hb, same)))
    w.claim('reflexive', a == a)


ROUTES = ('end_cell', 'to_cell', 'to_slice.to_cell', 'slice.to_cell', 'copy', 'from_cell.to_cell', 'begin_parse.to_cell',
          'to_builder.end_cell', 'slice.to_builder.end_cell', 'slice.copy.to_cell')


@obligation('C01.routes', 'C01', cases=[{'route': rt, 'r': r, 'm8': m} for rt in ROUTES for r in (0, 1, 4) for m in (0, 3)],
            fuc=INIT + [B + 'end_cell', B + 'to_cell', B + 'to_slice', S + 'to_cell', S + 'from_cell', S + 'copy',
                        S + 'to_builder', C + 'copy', C + 'begin_parse', C + 'to_builder', B + 'store_cell',
                        B + 'store_slice'],
            descr='every construction route (builder, slice after reads, copies, conversions) yields a cell whose hash and '
                  'depth are the specification values of the abstract (bits, refs) the route denotes')
def routes(w, route, r, m8):
    from pytoniq_core.boc.cell import Cell
    from pytoniq_core.boc.slice import Slice
    from pytoniq_core.boc.tvm_bitarray import TvmBitarray
    b, bits = _data(w, m8)
    kids, obs = _kids(w, r)
    for o in obs:
        w.assume(o.depth_at(0) <= 1022)
    if route in ('end_cell', 'to_cell', 'to_slice.to_cell'):
        bd, _ = mk_builder(w, None, kids)
        bd._bits = w.mk_bitarray(TvmBitarray, bits, 1023)
        c = bd.end_cell() if route == 'end_cell' else (bd.to_cell() if route == 'to_cell' else bd.to_slice().to_cell())
        src = bd
    elif route in ('slice.to_cell', 'slice.to_builder.end_cell', 'slice.copy.to_cell'):
        # a slice that has already consumed a prefix of j bits and `off` references
        j = w.choice('j', [0, 5])
        off = w.choice('off', [0, 1])
        pre = w.bits('pre', j)
        s = mk_slice(w, pre + bits, [Child(f'gone{i}') for i in range(off)] + kids)
        if j:
            s.load_bits(j)
        for _ in range(off):
            s.load_ref()
        c = s.to_cell() if route == 'slice.to_cell' else (s.to_builder().end_cell() if route.endswith('end_cell')
                                                           else s.copy().to_cell())
        src = s
    else:
        c0 = Cell(w.mk_bitarray(TvmBitarray, bits, 1023), list(kids))
        if route == 'copy':
            c = c0.copy()
        elif route == 'from_cell.to_cell':
            c = Slice.from_cell(c0).to_cell()
        elif route == 'begin_parse.to_cell':
            c = c0.begin_parse().to_cell()
        else:
            c = c0.to_builder().end_cell()
        w.claim('route result equals the source cell', c == c0)
        src = c0
    _claim_cell(w, c, bits, b, m8, kids, obs)
    # the hash is computed once at construction: it stays the hash of the cell's visible content only if the cell does
    # not share its containers with the object it was derived from (which may be mutated later)
    w.claim('the cell owns its bits and refs containers (not shared with the source)',
            c.bits is not src.bits and c.refs is not src.refs)
