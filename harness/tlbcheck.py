"""Shared by C15 / C16 / C11: feed the library's TL-B parsers with encodings produced from the schema (vf/spec/tlb.py) and
compare every returned field with the encoded value; check that exactly the encoded bits and references are consumed.

`agree` walks the schema value tree and the library object in parallel.  Default rule: a schema field `f` is the library
attribute `f`; per-class differences in NAMING or REPRESENTATION (never in value) are listed in NAMES / ADAPT below - they are
part of the contract text ("which attribute carries which schema field") and are derived from the library's constructors.
"""
from vf.bits import Seq
from vf.spec import tlb as T, enc as E
from vf.spec.vmstack import Node, Raw
from harness.common import call, is_error, bits_of


def build(w, node, type_=-1):
    """a real library cell for an encoding node"""
    from pytoniq_core.boc.cell import Cell
    from pytoniq_core.boc.tvm_bitarray import TvmBitarray
    if isinstance(node, Raw):
        return node.obj
    return Cell(w.mk_bitarray(TvmBitarray, node.bits, 1023), [build(w, r) for r in node.refs], getattr(node, 'type_', -1))


# schema field -> library attribute, per (schema type) ; '*' = any constructor
NAMES = {
    'BlockInfo': {'seq_no': 'seqno', 'vert_seq_no': 'vert_seqno'},
    'ExtBlkRef': {'seq_no': 'seqno'},
    'AccountState': {'_anon0': 'state_init'},
    # not exposed by the library object (Merkle-cell internals / reserved all-zero fields); None = not compared, listed
    'MERKLE_UPDATE': {'old_depth': None, 'new_depth': None},
    'CatchainConfig': {'flags': None},
    'ConsensusConfig': {'flags': None},
    'OracleBridgeParams': {'external_chain_address': 'external_chain_address_hex'},
}
# constructor -> the label the library reports in `type_` where it is not the constructor name or its suffix
TYPE_LABEL = {('AccountStatus', 'acc_state_uninit'): 'uninitialized', ('TransactionDescr', 'trans_ord'): 'ordinary',
              ('OutMsg', 'msg_export_deq_short'): 'msg_export_deq'}
# field-less constructors the library represents by None
NONE_CONS = {('Account', 'account_none'), ('FutureSplitMerge', 'fsm_none')}
# wrapper objects: the schema value is carried by an attribute of the returned object
UNWRAP = {'ShardState': lambda got: got.shard_state_unsplit if getattr(got, 'type_', None) == '_' and hasattr(got, 'shard_state_unsplit') else got}


class Ctx:
    def __init__(self, w):
        self.w = w
        self.claims = []          # (name, condition)
        self.skipped = []         # fields the library keeps unparsed (raw cell / slice): listed, compared as raw content

    def claim(self, name, cond):
        self.claims.append((name, cond))

    def flush(self, prefix=''):
        for n, c in self.claims:
            self.w.claim(prefix + n, c)
        self.claims = []


def _is_num(x):
    from vf.sym import SymInt
    return type(x) is int or type(x) is SymInt


def beq(w, got, b):
    """library boolean/bit `got` equals the schema bit b (0/1)"""
    if type(got) is bool or type(got) is int:
        return (b == 1) if got else (b == 0)
    if _is_num(got):
        return got == b
    try:
        return w.Or(w.And(got, b == 1), w.And(w.Not(got), b == 0))
    except Exception:
        return False


def bits_eq(w, got, seq):
    """library value `got` carries exactly the bit string seq (bytes, hex text, bitarray, integer)"""
    n = seq.length()
    if got is None:
        return False
    if hasattr(got, 'to01'):
        return w.eq_seq(w.seq_of(got), seq)
    if _is_num(got):
        return got == w.val(seq)
    if isinstance(got, (bytes, bytearray)) or type(got).__name__ == 'SymBytes':
        if n % 8:
            return False
        return w.eq_seq(w.bytes_seq(got), seq)
    if hasattr(got, 'b') and type(got).__name__ == 'SymHex':          # bytes.hex() of symbolic bytes
        return w.eq_seq(w.bytes_seq(got.b), seq)
    if type(got) is str:
        try:
            return w.eq_seq(w.bytes_seq(bytes.fromhex(got)), seq)
        except ValueError:
            return False
    return False


def cell_matches(w, got, node):
    from vf.spec.vmstack import matches
    if hasattr(got, 'begin_parse') and hasattr(got, 'refs'):
        return matches(w, got, node)
    return False


def agree(cx, got, v, path, node=None, tname=None):
    """append claims saying that the library value `got` carries the schema value `v`"""
    w = cx.w
    if v is None:
        cx.claim(f'{path}: absent', got is None)
        return
    if v is True:                      # True / Unit: a field-less value; whatever stands for it must not read as a negative
        cx.claim(f'{path}: field-less value (True / Unit) is not reported as False', got is not False)
        return
    if isinstance(v, T.Bool_):
        cx.claim(f'{path}: Bool', beq(w, got, v.b))
        return
    if _is_num(v):
        if type(got) is bool or (got is not None and not _is_num(got) and type(got).__name__ == 'SymBool'):
            cx.claim(f'{path}: bit', beq(w, got, v))
        else:
            cx.claim(f'{path}: integer value', _is_num(got) and got == v)
        return
    if isinstance(v, T.Bits_):
        cx.claim(f'{path}: bit string', bits_eq(w, got, v.seq))
        return
    if isinstance(v, tuple) and v and v[0] == 'pruned':
        # the value was replaced by a pruned branch (Merkle proof / update): nothing to compare; the library gives None, the
        # cell itself or a slice of it
        cx.skipped.append(path + ' (pruned)')
        return
    if isinstance(v, tuple) and v and v[0] == 'either':
        return agree(cx, got, v[2], path, node, tname)
    if isinstance(v, tuple) and v and v[0] == 'any':
        ok = hasattr(got, 'refs') and hasattr(got, 'bits')
        cx.claim(f'{path}: inline remainder as a cell', ok and w.And(w.eq_seq(w.seq_of(got.bits), v[1]),
                 len(got.refs) - getattr(got, 'ref_offset', 0) == len(v[2]) and
                 all(a is b for a, b in zip(got.refs[getattr(got, 'ref_offset', 0):], v[2]))))
        return
    if isinstance(v, T.Addr_):
        return agree_addr(cx, got, v, path)
    if isinstance(v, T.Dict_):
        return agree_dict(cx, got, v, path, node)
    if isinstance(v, T.Rec):
        return agree_rec(cx, got, v, path, node)
    # an abstract cell (^Cell)
    if hasattr(v, '_hashes'):
        same_content = hasattr(got, 'bits') and hasattr(got, 'refs') and w.And(
            w.eq_seq(w.seq_of(got.bits), w.seq_of(v.bits)),
            len(got.refs) - getattr(got, 'ref_offset', 0) == len(v.refs) and all(a is b for a, b in zip(got.refs[getattr(got, 'ref_offset', 0):], v.refs)))
        cx.claim(f'{path}: the referenced cell', True if got is v else same_content)
        return
    cx.claim(f'{path}: unsupported value kind {type(v).__name__}', False)


def agree_addr(cx, got, v, path):
    w = cx.w
    if v.kind == 'none':
        cx.claim(f'{path}: addr_none', got is None)
        return
    if v.kind == 'extern':
        cx.claim(f'{path}: addr_extern', got is not None and hasattr(got, 'external_address') and
                 w.And(got.len == v.len, got.external_address == v.value))
        return
    if v.kind == 'std':
        ok = got is not None and hasattr(got, 'hash_part') and hasattr(got, 'wc')
        cx.claim(f'{path}: addr_std workchain and hash', ok and w.And(got.wc == v.wc, bits_eq(w, got.hash_part, v.hash)))
        if v.anycast is None:
            cx.claim(f'{path}: no anycast', ok and got.anycast is None)
        else:
            cx.claim(f'{path}: anycast', ok and got.anycast is not None and
                     w.And(got.anycast.depth == v.anycast[0], got.anycast.rewrite_pfx == v.anycast[1]))
        return
    # addr_var: the library has no representation; any object exposing the fields is accepted
    ok = got is not None and hasattr(got, 'wc')
    cx.claim(f'{path}: addr_var workchain', ok and got.wc == v.wc)


def agree_dict(cx, got, v, path, node=None):
    w = cx.w
    extras = None
    if hasattr(got, 'begin_parse') and hasattr(got, '_hashes'):
        # the library keeps the dictionary unparsed (its root cell)
        cx.skipped.append(path)
        node = v.root_node or node
        cx.claim(f'{path}: raw root cell of the dictionary', node is not None and cell_matches(w, got, node))
        return
    if v.aug and got is None and not v.entries:
        return                      # empty augmented dictionary kept as None
    if v.aug:
        if isinstance(got, tuple) and len(got) == 2:
            got, extras = got
        else:
            cx.claim(f'{path}: augmented dictionary returned as (dict, extras)', False)
            return
    if getattr(v, 'pruned_root', False):
        cx.skipped.append(path + ' (pruned root)')
        return
    if not v.entries:
        cx.claim(f'{path}: empty dictionary', got is None or (isinstance(got, (dict, list)) and len(got) == 0))
        return
    if isinstance(got, list):            # values in ascending key order
        cx.claim(f'{path}: list of {len(v.entries)} values', len(got) == len(v.entries))
        if len(got) == len(v.entries):
            for g, (key, val, extra) in zip(got, sorted(v.entries, key=lambda e: e[0])):
                agree(cx, g, val, f'{path}[{key:#x}]')
        return
    ok = isinstance(got, dict)
    cx.claim(f'{path}: dictionary with {len(v.entries)} entries', ok and len(got) == len(v.entries))
    if not ok:
        return
    for key, val, extra in v.entries:
        if key in got:
            agree(cx, got[key], val, f'{path}[{key:#x}]')
        else:
            signed = key - (1 << v.n) if key >> (v.n - 1) else key
            if signed in got and path.endswith('.config'):      # ConfigParams delivers its int32 parameter ids as signed integers
                agree(cx, got[signed], val, f'{path}[{signed}]')
            else:
                cx.claim(f'{path}: key {key:#x} present', False)
    if v.aug and extras is not None:
        exp = getattr(v, 'extras_seq', None)
        if exp is None:
            exp = [e for _, _, e in v.entries] + ([v.fork_extra] if v.fork_extra is not None else [])
        cx.claim(f'{path}: {len(exp)} node extras', len(extras) == len(exp))
        if len(extras) == len(exp):
            for i, (g, e) in enumerate(zip(extras, exp)):
                agree(cx, g, e, f'{path}.extra{i}')


def agree_rec(cx, got, v, path, node=None):
    w = cx.w
    if (v.type, v.cons) in NONE_CONS:
        cx.claim(f'{path}: {v.cons} is represented by None', got is None)
        return
    if got is None:
        cx.claim(f'{path}: {v.type}.{v.cons} returned', False)
        return
    un = UNWRAP.get(type(got).__name__)
    if un is not None:
        got = un(got)
    if v.type == 'BinTree':
        # the library flattens a BinTree X into BinTree(list=[leaves left to right])
        leaves = []

        def walk(r):
            if r.cons == 'bt_leaf':
                leaves.append(r.f['leaf'])
            else:
                walk(r.f['left'])
                walk(r.f['right'])
        walk(v)
        lst = getattr(got, 'list', None)
        cx.claim(f'{path}: BinTree flattened to {len(leaves)} leaves', isinstance(lst, list) and len(lst) == len(leaves))
        if isinstance(lst, list) and len(lst) == len(leaves):
            for i, (g, lv) in enumerate(zip(lst, leaves)):
                agree(cx, g, lv, f'{path}.leaf{i}')
        return
    # library keeps the value unparsed (raw cell or slice)
    if hasattr(got, 'begin_parse') and hasattr(got, '_hashes') and node is not None:
        cx.skipped.append(path)
        cx.claim(f'{path}: raw cell holds the encoding', cell_matches(w, got, node))
        return
    if hasattr(got, 'ref_offset') and hasattr(got, 'load_uint'):
        cx.skipped.append(path)
        return
    names = NAMES.get(v.type, {})
    t = getattr(got, 'type_', None)
    if isinstance(t, str) and t not in ('_',):
        want = TYPE_LABEL.get((v.type, v.cons))
        cx.claim(f'{path}: constructor {v.cons} reported as type_={t!r}',
                 t == want if want else (t == v.cons or v.cons.endswith('_' + t)))
    anon_i = 0
    for f, fv in v.f.items():
        if f == '_anon':
            for av in fv:
                attr = names.get(f'_anon{anon_i}')
                anon_i += 1
                if attr is None:
                    # an anonymous field: the library may flatten it into the parent object
                    if isinstance(av, T.Rec):
                        agree_rec(cx, got, av, path)
                    continue
                if not hasattr(got, attr):
                    cx.claim(f'{path}.{attr}: returned', False)
                    continue
                agree(cx, getattr(got, attr), av, f'{path}.{attr}')
            continue
        attr = names.get(f, f)
        if attr is None:
            continue
        if callable(attr):
            attr(cx, got, fv, f'{path}.{f}')
            continue
        if isinstance(got, dict):
            if attr not in got:
                cx.claim(f'{path}.{attr}: returned', False)
                continue
            g = got[attr]
        else:
            if not hasattr(got, attr):
                if fv is None:
                    continue            # absent optional field may be a missing attribute
                cx.claim(f'{path}.{attr}: returned', False)
                continue
            g = getattr(got, attr)
        agree(cx, g, fv, f'{path}.{attr}', node=v.nodes.get(f) if hasattr(v, 'nodes') else None)


def leaf_cell(w, name):
    """abstract cell used for ^Cell / Any leaves: symbolic content and hash, CONCRETE depth 0 (depth arithmetic over many
    abstract leaves only multiplies paths inside Cell.__init__, which is C01's subject, not this one's)"""
    from harness.common import abstract_cell
    c = abstract_cell(w, name)
    c._depths = [0] * len(c._depths)
    return c


def encode(w, tname, targs=(), own=None, prof=0, rot=0, cell_factory=None, prefix=''):
    pol = T.Policy(own=own or {}, prof=prof, rot=rot)
    if cell_factory is None:
        cell_factory = lambda path: leaf_cell(w, prefix + 'c:' + path)
    cur, v, g = T.generate(w, tname, targs, pol, cell_factory=cell_factory, prefix=prefix)
    return cur, v


def decoy_parse(w, fn, tname, targs, own, prof, rot, extra_args=()):
    """history independence: an EARLIER call of the parser on an independent value of the same shape (all its fields are separate
    symbols, so the solver may make any subset of them equal to the real value's - e.g. the part a cache would be keyed on) must not
    influence the call under contract; its result is ignored"""
    cur, v = encode(w, tname, targs, own, prof, rot, prefix='decoy.')
    node = Node(cur.bits, list(cur.refs))
    node.type_ = getattr(cur, 'type_', -1)
    call(fn, build(w, node).begin_parse(), *extra_args)


def parse_and_compare(w, fn, cur, v, extra_args=(), rest_bits=9, label=''):
    """build the cell `encoding ++ rest`, run the library parser, compare all fields, check what is left"""
    room = 1023 - cur.bits.length()
    nrest = min(rest_bits, room)
    rest = w.bits('REST', nrest)
    extra_ref = []
    if len(cur.refs) < 4:
        tail = leaf_cell(w, 'tailref')
        extra_ref = [Raw(tail)]
    node = Node(cur.bits + rest, list(cur.refs) + extra_ref)
    node.type_ = getattr(cur, 'type_', -1)
    cell = build(w, node)
    s = cell.begin_parse()
    k, got = call(fn, s, *extra_args)
    w.claim(f'{label}parser accepts the schema encoding ({type(got).__name__ + ": " + str(got)[:80] if k != "ok" else ""})', k == 'ok')
    if k != 'ok':
        return None
    cx = Ctx(w)
    agree(cx, got, v, label or 'value')
    cx.flush()
    w.claim(f'{label}consumes exactly the encoded bits', w.eq_seq(bits_of(w, s), rest))
    w.claim(f'{label}consumes exactly the encoded references', len(s.refs) - s.ref_offset == len(extra_ref))
    return got
