"""C12 — block signature sets are accepted only with a genuine validator supermajority.

Specification (from the property): accept  iff  the validator list is non-empty, every signature names (by node id =
SHA256(0xc6b41348 ++ pubkey)) a listed validator, verifies (Ed25519 over 0x706e0bc5 ++ root_hash ++ file_hash) under that
validator's key, the named validators are pairwise distinct, and 3 * sum(w signers) > 2 * sum(w all).

Ed25519 verification is a dependency: verify_sign is replaced by its contract, an uninterpreted predicate V(pk, msg, sig)
(assumption T6: it is a deterministic function of its arguments; unforgeability is not needed for this property).
Weights are SYMBOLIC non-negative integers; which validator a signature names and whether it verifies are symbolic.
List LENGTHS are bounded (<= 3 validators, <= 4 signatures): the loops are additionally cut (vf/loopcut.py, fragments
extracted from the real source each run) and one iteration is proved from a state whose scalars are havoced.
"""
import importlib
import os
from vf.engine import obligation
from vf.spec import enc as E
from vf.bits import Seq
from harness.common import call, is_error, no_verdict

F = 'pytoniq_core.proof.check_proof.'
T6 = 'T6: Ed25519 verification (PyNaCl) is used through its contract: a deterministic predicate V(public key, message, signature)'


class _PK:
    def __init__(self, pubkey):
        self.pubkey = pubkey


class Node:
    """stand-in for tlb.config.ValidatorDescr: public_key.pubkey, weight (the only attributes the function reads)"""

    def __init__(self, pubkey, weight):
        self.public_key = _PK(pubkey)
        self.weight = weight


class Blk:
    def __init__(self, root_hash, file_hash):
        self.root_hash, self.file_hash = root_hash, file_hash

    def __repr__(self):
        return 'Blk'

    def __format__(self, spec):
        return 'Blk'


def _pk(i):
    return bytes([0xA0 + i]) * 32


def _native_keys(n):
    from nacl.signing import SigningKey
    return [SigningKey(bytes([i + 1]) * 32) for i in range(n)]


@obligation('C12.node_id', 'C12', fuc=[F + 'calculate_node_id_short'], assumes=['T3 SHA-256 uninterpreted'],
            descr='node id of a validator = SHA256(0xc6b41348 ++ public key) for every 32-byte key')
def node_id(w):
    M = importlib.import_module('pytoniq_core.proof.check_proof')
    pk = w.bytes('pk', 32)
    got = M.calculate_node_id_short(pk)
    w.claim('node id layout', got == w.sha256(Seq.from_bytes(bytes.fromhex('c6b41348')) + w.bytes_seq(pk)))


def _spell(hx, j):
    """equivalent hex spellings of a node id (bytes.fromhex accepts all of them): lower case, upper case, byte-spaced; signature j
    uses spelling j mod 3, so duplicates of one validator occur with equal (j, j+3) and with different spellings"""
    if j % 3 == 1:
        return hx.upper()
    if j % 3 == 2:
        return ' '.join(hx[i:i + 2] for i in range(0, len(hx), 2))
    return hx


def _run(w, M, n, names, weights, valid, blk, records):
    """builds validators/signatures and calls the real function; returns outcome"""
    if w.symbolic:
        pks = [_pk(i) for i in range(n + 1)]            # index n = a key that is NOT in the validator list

        def verify(public_key, signed_message, signature):
            records.append((public_key, signed_message, signature))
            j = signature[0]
            return valid[j]
        nodes = [Node(pks[i], weights[i]) for i in range(n)]
        sigs = [{'node_id_short': _spell(M.calculate_node_id_short(pks[v]).hex(), j), 'signature': bytes([j]) * 64} for j, v in enumerate(names)]
        with w.stub(M, 'verify_sign', verify):
            return call(M.check_block_signatures, nodes, sigs, blk)
    keys = _native_keys(n + 1)
    pks = [k.verify_key.encode() for k in keys]
    msg = bytes.fromhex('706e0bc5') + blk.root_hash + blk.file_hash
    nodes = [Node(pks[i], weights[i]) for i in range(n)]
    sigs = []
    for j, v in enumerate(names):
        sg = keys[v].sign(msg).signature
        if not valid[j]:
            sg = bytes([sg[0] ^ 1]) + sg[1:]
        sigs.append({'node_id_short': _spell(M.calculate_node_id_short(pks[v]).hex(), j), 'signature': sg})
    return call(M.check_block_signatures, nodes, sigs, blk)


SHAPES = [{'n': n, 's': s} for n in range(0, 4) for s in range(0, 5) if not (n == 0 and s > 1)]


@obligation('C12.accept_iff', 'C12', cases=SHAPES, fuc=[F + 'check_block_signatures', F + 'calculate_node_id_short'],
            assumes=[T6, 'T3 SHA-256 (concrete inputs here: real digests)'], samples=60,
            descr='BOUNDED list lengths (n <= 3 validators, s <= 4 signatures), everything else symbolic or exhaustive: weights any '
                  'non-negative integers, each signature names any listed validator or a foreign key (all assignments, so every '
                  'multiset/order incl. duplicates), each verifies or not.  Accepts IFF the specification predicate holds (both '
                  'directions); the signed payload is 0x706e0bc5 ++ root_hash ++ file_hash under the named validator\'s key')
def accept_iff(w, n, s):
    M = importlib.import_module('pytoniq_core.proof.check_proof')
    weights = [w.int(f'w{i}', 0, 1 << 64) for i in range(n)]
    names = [w.choice(f'sig{j}_names', list(range(n + 1))) for j in range(s)]      # n = foreign signer
    valid = [w.bool(f'sig{j}_valid') for j in range(s)]
    blk = Blk(w.bytes('root_hash', 32), w.bytes('file_hash', 32))
    # history independence: an EARLIER call with the same keys but other (symbolic) weights, validity bits and block must not
    # influence this one (a result cached by public keys, say, would)
    if n:
        pre_w = [w.int(f'pre_w{i}', 0, 1 << 64) for i in range(n)]
        pre_valid = [w.bool(f'pre_sig{j}_valid') for j in range(s)]
        _run(w, M, n, names, pre_w, pre_valid, Blk(w.bytes('pre_root', 32), w.bytes('pre_file', 32)), [])
    records = []
    k, out = _run(w, M, n, names, weights, valid, blk, records)
    known = all(v < n for v in names)
    distinct = len(set(names)) == len(names)
    all_valid = w.And(*valid) if valid else True
    total = sum(weights) if weights else 0
    signed = 0
    for v in set(names):
        if v < n:
            signed = signed + weights[v]
    spec = w.And(n > 0, known, distinct, all_valid, 3 * signed > 2 * total)
    if k == 'ok':
        w.cover('accepted')
        w.claim('accepted only with distinct valid signatures of listed validators holding MORE than 2/3 of a non-empty set',
                spec)
        if w.symbolic:
            want = Seq.from_bytes(bytes.fromhex('706e0bc5')) + w.bytes_seq(blk.root_hash) + w.bytes_seq(blk.file_hash)
            for (pk, msg, sg) in records:
                w.claim('verified payload = magic ++ root_hash ++ file_hash', w.eq_seq(w.bytes_seq(msg), want))
                w.claim('verified under the named validator\'s key', pk == _pk(names[sg[0]]))
            w.claim('every signature was verified', sorted(r[2][0] for r in records) == list(range(s)))
    else:
        w.cover('rejected')
        w.claim('every signature set meeting the condition is accepted', w.Not(spec))
        w.claim(f'rejection is an API error ({type(out).__name__}: {out})', is_error(out))


@obligation('C12.threshold', 'C12', fuc=[F + 'check_block_signatures'],
            descr='UNBOUNDED in the weights: the fragment of the real function after its loops (extracted mechanically), run from a '
                  'state with arbitrary accumulated totals: returns normally iff 3*signed > 2*total (so total = 0, the empty set, '
                  'is refused and exactly 2/3 is refused)')
def threshold(w):
    from vf import loopcut
    M = importlib.import_module('pytoniq_core.proof.check_proof')
    segs, info = loopcut.cut(M, 'check_block_signatures')
    if info['loops'] != 2:      # the function changed shape: no verdict from this fragment-based obligation (C12.accept_iff and the native ones decide)
        from vf.sym import Unsupported
        from vf.engine import Skip
        if not w.symbolic:
            raise Skip()        # natively this fragment-based obligation has nothing to run: no verdict
        raise Unsupported(f'loop cut: expected two top-level loops in check_block_signatures, found {info["loops"]}')
    pre = segs[0][1]({'nodes': [], 'signatures': [], 'blk': Blk(b'\0' * 32, b'\1' * 32)})
    L = dict(pre[-1])
    ints = [k for k, v in L.items() if type(v) is int]
    if len(ints) < 2:
        no_verdict(w, 'the two weight accumulators are not among the locals after the loops')
    total = w.int('total', 0, 1 << 80)
    delta = w.int('delta', -(1 << 80), 1 << 80)
    signed = (2 * total) // 3 + delta            # any value (delta is free): written relative to the boundary so that the
    w.assume(w.And(signed >= 0, signed <= total))  # native stand-in samples the boundary at every magnitude
    # identify the accumulators by running the real loops on a tiny concrete instance
    probe = loopcut.run_state(segs[:4], {'nodes': [Node(_pk(0), 5), Node(_pk(1), 7)], 'signatures': [], 'blk': Blk(b'\0' * 32, b'\1' * 32)})
    tot_names = [k for k, v in probe.items() if type(v) is int and v == 12]
    sg_names = [k for k in ints if k not in tot_names and probe.get(k) == 0 and k != 'i']
    if len(tot_names) != 1 or not sg_names:
        no_verdict(w, 'total / signed weight accumulators could not be identified')
    L2 = dict(probe)
    L2[tot_names[0]] = total
    for nm in sg_names:
        L2[nm] = signed
    L2['blk'] = Blk(b'\0' * 32, b'\1' * 32)
    k, out = call(segs[-1][1], L2)
    ok = k == 'ok' and out[0] == 'return'
    if ok:
        w.cover('accept')
        w.claim('accepts only above two thirds', 3 * signed > 2 * total)
    else:
        w.cover('reject')
        w.claim('rejects only at or below two thirds', w.Not(3 * signed > 2 * total))
        w.claim('rejection is an API error', k == 'raise' and is_error(out))


@obligation('C12.step', 'C12', cases=[{'names': nm} for nm in ('new', 'duplicate', 'foreign')],
            fuc=[F + 'check_block_signatures'], assumes=[T6],
            descr='inductive step of the signature loop (body extracted mechanically from the real source): from the state reached '
                  'after one valid signature of validator 0, with the accumulated weights HAVOCED to arbitrary values, one more '
                  'iteration either raises (foreign signer, duplicate signer, invalid signature) or adds exactly the named '
                  'validator\'s weight; the total is not changed')
def step(w, names):
    from vf import loopcut
    M = importlib.import_module('pytoniq_core.proof.check_proof')
    segs, info = loopcut.cut(M, 'check_block_signatures')
    if info['loops'] != 2:
        from vf.sym import Unsupported
        from vf.engine import Skip
        if not w.symbolic:
            raise Skip()        # natively this fragment-based obligation has nothing to run: no verdict
        raise Unsupported(f'loop cut: expected two top-level loops in check_block_signatures, found {info["loops"]}')
    w0, w1 = w.int('w0', 0, 1 << 64), w.int('w1', 0, 1 << 64)
    nodes = [Node(_pk(0), w0), Node(_pk(1), w1)]
    blk = Blk(w.bytes('root_hash', 32), w.bytes('file_hash', 32))
    v_first, v_next = True, w.bool('valid')

    def verify(public_key, signed_message, signature):
        return v_first if signature[0] == 0 else v_next
    mk = lambda v, j: {'node_id_short': _spell(M.calculate_node_id_short(_pk(v)).hex(), j), 'signature': bytes([j]) * 64}
    if not w.symbolic:
        # native replay: the whole function on [valid signature of validator 0, the next signature]
        nxt = {'new': 1, 'duplicate': 0, 'foreign': 2}[names]
        w0 = max(w0, 1)
        k, out = _run(w, M, 2, [0, nxt], [w0, 0 if names == 'new' else w1], [True, bool(v_next)], blk, [])
        w.claim('a foreign, duplicate or invalid second signature is refused', k == 'raise' or (names == 'new' and v_next))
        return
    with w.stub(M, 'verify_sign', verify):
        L = loopcut.run_state(segs[:3], {'nodes': nodes, 'signatures': [mk(0, 0)], 'blk': blk})
        r = segs[3][1](L, mk(0, 0))
        L = dict(r[-1])
        before = {k: v for k, v in L.items() if type(v).__name__ in ('int', 'SymInt') or type(v) is int}
        # havoc the scalar accumulators (keep their relation to the ghost sums unknown: arbitrary values)
        hav = {}
        for k_, v in list(L.items()):
            if k_ != 'i' and (type(v) is int or type(v).__name__ == 'SymInt'):
                hav[k_] = w.int(f'havoc_{k_}', 0, 1 << 80)
                L[k_] = hav[k_]
        nxt = {'new': 1, 'duplicate': 0, 'foreign': 2}[names]
        k, out = call(segs[3][1], L, mk(nxt, 1))
    if k == 'raise':
        w.cover('raise')
        w.claim('raises only for a foreign, duplicate or invalid signature', w.Or(names != 'new', w.Not(v_next)))
        w.claim('rejection is an API error', is_error(out))
        return
    w.cover('ok')
    w.claim('foreign and duplicate signers never pass', names == 'new')
    w.claim('invalid signatures never pass', v_next)
    L2 = out[-1]
    changed = [k_ for k_ in hav if not (type(L2[k_]) is type(hav[k_]) and L2[k_] is hav[k_])]
    w.claim('exactly one accumulator changes', len(changed) == 1)
    if len(changed) == 1:
        w.claim('it grows by exactly the named validator\'s weight', L2[changed[0]] == hav[changed[0]] + w1)


@obligation('C12.threshold.boundary', 'C12', kind='bounded', samples=400, fuc=[F + 'check_block_signatures'],
            descr='bounded, native, real Ed25519: two validators with weights (a, T-a), one valid signature by the first; T over all '
                  'magnitudes up to 2^64 (powers of two, 3*2^k, random), a on the boundary floor(2T/3)+{-2..2}: accepted iff 3a > 2T '
                  '(exact integer arithmetic at every magnitude)')
def threshold_boundary(w):
    M = importlib.import_module('pytoniq_core.proof.check_proof')
    rng = w.rng
    k = rng.randrange(0, 64)
    T = rng.choice([1 << k, 3 << min(k, 61), (1 << k) + rng.randrange(0, 1 << k), rng.randrange(1, 1 << 64)])
    a = (2 * T) // 3 + rng.randrange(-2, 3)
    a = min(max(a, 0), T)
    w.used['T'], w.used['a'] = T, a
    blk = Blk(bytes(rng.getrandbits(8) for _ in range(32)), bytes(rng.getrandbits(8) for _ in range(32)))
    kk, out = _run(w, M, 2, [0], [a, T - a], [True], blk, [])
    w.claim(f'T={T} a={a}: accepted iff 3a > 2T', (kk == 'ok') == (3 * a > 2 * T))


@obligation('C12.verify_sign', 'C12', cases=[{'accept': a} for a in (True, False)], assumes=[T6],
            fuc=['pytoniq_core.crypto.signature.verify_sign'],
            descr='the contract of verify_sign that C12.accept_iff relies on, as an obligation of its own: with PyNaCl\'s VerifyKey '
                  'replaced by a recording model, the helper hands EXACTLY the given key, message and signature (the same objects: no '
                  'concatenation, truncation or re-encoding, so the signature/message boundary is the caller\'s) to the primitive, once, '
                  'and returns True iff the primitive accepts, False iff it raises BadSignatureError')
def verify_sign(w, accept):
    import harness.C20 as C20
    C20.verify(w, accept)


@obligation('C12.forged', 'C12', kind='bounded', samples=60, fuc=[F + 'check_block_signatures', 'pytoniq_core.crypto.signature.verify_sign'],
            descr='bounded, native, real Ed25519: three validators of equal weight, two genuine signatures (exactly 2/3: not enough) and a '
                  'third entry by the third validator that is NOT a signature over the block payload: a genuine signature over X ++ payload '
                  'followed by X (the combined form of another message), the genuine signature extended / truncated, a signature '
                  'over another block, the empty string - in every position of the list: always refused')
def forged(w):
    M = importlib.import_module('pytoniq_core.proof.check_proof')
    rng = w.rng
    keys = _native_keys(3)
    pks = [k.verify_key.encode() for k in keys]
    blk = Blk(bytes(rng.getrandbits(8) for _ in range(32)), bytes(rng.getrandbits(8) for _ in range(32)))
    msg = bytes.fromhex('706e0bc5') + blk.root_hash + blk.file_hash
    x = bytes(rng.getrandbits(8) for _ in range(rng.choice([1, 29, 64, 100])))
    good = keys[2].sign(msg).signature
    how = rng.choice(['combined_prefix', 'combined_suffix', 'extended', 'truncated', 'other_block', 'empty', 'genuine'])
    bad = {'combined_prefix': keys[2].sign(x + msg).signature + x, 'combined_suffix': keys[2].sign(msg + x).signature,
           'extended': good + x, 'truncated': good[:63], 'other_block': keys[2].sign(msg[:-1] + bytes([msg[-1] ^ 1])).signature,
           'empty': b'', 'genuine': good}[how]
    w.used['how'] = how
    nodes = [Node(pks[i], 10) for i in range(3)]
    sigs = [{'node_id_short': M.calculate_node_id_short(pks[i]).hex(), 'signature': keys[i].sign(msg).signature} for i in range(2)]
    sigs.insert(rng.randrange(0, 3), {'node_id_short': M.calculate_node_id_short(pks[2]).hex(), 'signature': bad})
    k, out = call(M.check_block_signatures, nodes, sigs, blk)
    if how == 'genuine':
        w.claim('three genuine signatures are accepted', k == 'ok')
    else:
        w.claim(f'{how}: a third entry that is not a signature over the block payload is refused', k == 'raise')
        w.claim(f'{how}: refusal is an API error ({type(out).__name__})', k != 'raise' or is_error(out))


@obligation('C12.duplicate_keys', 'C12', cases=[{'sigs': sg} for sg in ([0], [1], [0, 1], [1, 0])],
            fuc=[F + 'check_block_signatures', F + 'calculate_node_id_short'], assumes=[T6],
            descr='a validator list in which one public key occurs in TWO entries [K0:w0, K1:w1, K0:w2] (weights symbolic), valid signatures by '
                  'the given keys: the total is the weight of ALL entries; a signature stands for ONE entry of its key - accepted only if '
                  '3 * (sum over signing keys of the LARGEST entry of that key) > 2 * total (whichever entry an implementation attributes the '
                  'signature to; refusing such a list outright is not excluded)')
def duplicate_keys(w, sigs):
    M = importlib.import_module('pytoniq_core.proof.check_proof')
    ws = [w.int(f'w{i}', 0, 1 << 64) for i in range(3)]
    blk = Blk(w.bytes('root_hash', 32), w.bytes('file_hash', 32))
    total = ws[0] + ws[1] + ws[2]
    hi = {0: w.ite(ws[0] > ws[2], ws[0], ws[2]), 1: ws[1]}
    lo = {0: w.ite(ws[0] > ws[2], ws[2], ws[0]), 1: ws[1]}
    if w.symbolic:
        pks = [_pk(0), _pk(1)]
        nodes = [Node(pks[0], ws[0]), Node(pks[1], ws[1]), Node(pks[0], ws[2])]
        sg = [{'node_id_short': M.calculate_node_id_short(pks[v]).hex(), 'signature': bytes([j]) * 64} for j, v in enumerate(sigs)]
        with w.stub(M, 'verify_sign', lambda public_key, signed_message, signature: True):
            k, out = call(M.check_block_signatures, nodes, sg, blk)
    else:
        keys = _native_keys(2)
        pks = [k_.verify_key.encode() for k_ in keys]
        msg = bytes.fromhex('706e0bc5') + blk.root_hash + blk.file_hash
        nodes = [Node(pks[0], ws[0]), Node(pks[1], ws[1]), Node(pks[0], ws[2])]
        sg = [{'node_id_short': M.calculate_node_id_short(pks[v]).hex(), 'signature': keys[v].sign(msg).signature} for v in sigs]
        k, out = call(M.check_block_signatures, nodes, sg, blk)
    s_hi = sum(hi[v] for v in sigs)
    s_lo = sum(lo[v] for v in sigs)
    if k == 'ok':
        w.cover('accepted')
        w.claim('accepted only if the signing entries can hold MORE than 2/3 of the weight of ALL entries', 3 * s_hi > 2 * total)
    else:
        w.cover('rejected')
        # (whether a list with a repeated key may be refused outright is not decided here: only the accepting direction is claimed)
        w.claim(f'rejection is an API error ({type(out).__name__})', is_error(out))
