"""C10 — canonical TON Hashmap encoding on the write side; parsers accept every valid encoding (all label kinds,
augmented nodes, pruned subtrees).

Deductive part (per function): label-kind selection for ALL (n, m, same) triples; the three label writers; the label
reader on every kind; augmented node order; pruned subtrees.  Whole-tree canonicity (recursion over key SETS) is a
bounded stand-in against vf/spec/hashmap.py (exhaustive small widths + random), never counted as proved.
"""
import importlib
import itertools
import os
from vf.engine import obligation
from vf.spec import hashmap as SH, enc as E
from vf.bits import Seq
from harness.common import mk_builder, mk_slice, bits_of, call, is_error, Child, same_objects

U = 'pytoniq_core.boc.hashmap.utils.'
P = 'pytoniq_core.boc.hashmap.parse.'
S = 'pytoniq_core.boc.slice.Slice.'


class SymLabel:
    """a label of SYMBOLIC length n of which only the length and `all bits equal` are known (is_same is stubbed by its
    contract; its own contract is C10.is_same)"""

    def __init__(self, n):
        self.n = n

    def __vf_len__(self):
        return self.n


@obligation('C10.label_kind', 'C10', fuc=[U + 'detect_label_type', U + 'label_short_length', U + 'label_long_length',
                                          U + 'label_same_length'],
            inlined=[U + 'is_same (replaced by its contract: returns `all bits equal`, see C10.is_same)'],
            descr='for ALL label lengths n, remaining key lengths m (0 <= n <= m <= 1023) and same in {T,F}: the chosen kind is '
                  'same iff same and n>1 and k<2n-1, else long iff k<n, else short (k = bit length of m): the whole ~10^6-triple '
                  'decision table, symbolically')
def label_kind(w):
    U_ = importlib.import_module("pytoniq_core.boc.hashmap.utils")
    m = w.int('m', 0, 1023)
    n = w.int('n', 0, 1023)
    w.assume(n <= m)
    same = w.bool('same')
    if w.symbolic:
        src = SymLabel(n)
        with w.stub(U_, 'is_same', lambda s: same):
            kind = U_.detect_label_type(src, m)
    else:
        if n < 2:
            same = True
        src = ('1' * n) if same else ('10' + '1' * (n - 2))
        kind = U_.detect_label_type(src, m)
    k = SH.bitlen_sym(w, m)
    w.claim('kind is one of short/long/same', kind in ('short', 'long', 'same'))
    for kd in ('short', 'long', 'same'):
        spec = SH.kind_is(w, kd, n, k, same)
        if kind == kd:
            w.claim(f'chose {kd} only where the reference algorithm does', spec)
        else:
            w.claim(f'did not choose {kd}: the reference algorithm does not either', w.Not(spec))
    w.cover(kind)


@obligation('C10.is_same', 'C10', cases=[{'n': n} for n in range(0, 13)], fuc=[U + 'is_same'],
            descr='BOUNDED in length (contents symbolic): is_same(label) <=> all label bits are equal, for label lengths 0..12')
def is_same(w, n):
    U_ = importlib.import_module("pytoniq_core.boc.hashmap.utils")
    bits = [w.int(f'b{i}', 0, 1) for i in range(n)]
    if w.symbolic:
        from vf.bits import Sym01
        seq = Seq()
        for b in bits:
            seq = seq + E.uint(b, 1)
        src = Sym01(seq) if n else ''
    else:
        src = ''.join(str(b) for b in bits)
    got = U_.is_same(src)
    all_eq = True
    for b in bits[1:]:
        all_eq = w.And(all_eq, b == bits[0])
    w.claim('is_same <=> all bits equal', w.And(w.Implies(got, all_eq), w.Implies(all_eq, got)))


def _label(w, n, name='s'):
    """label of concrete length n with symbolic bits: (text for the library, Seq, list of bit values)"""
    seq = Seq()
    for i in range(n):          # one symbolic value per bit: bit-wise reads/writes then compare without div/mod reasoning
        seq = seq + w.bits(f'{name}{i}', 1)
    if w.symbolic:
        from vf.bits import Sym01
        txt = Sym01(seq) if n else ''
    else:
        txt = format(seq.value(), f'0{n}b') if n else ''
    return txt, seq


LABEL_NS = [0, 1, 2, 3, 4, 5, 7, 8, 9, 16, 31, 32, 33]


@obligation('C10.write_label', 'C10', cases=[{'n': n} for n in LABEL_NS], fuc=[U + 'write_label', U + 'write_label_short',
            U + 'write_label_long', U + 'write_label_same', U + 'detect_label_type', U + 'is_same'],
            descr='write_label(s, m) for labels of length n (bits symbolic) and every remaining key length m >= n (symbolic): '
                  'emits exactly hml_short$0 unary(n) s | hml_long$10 n:k s | hml_same$11 v n:k of the canonical kind')
def write_label(w, n):
    U_ = importlib.import_module("pytoniq_core.boc.hashmap.utils")
    from pytoniq_core.boc.builder import Builder
    m = w.int('m', max(n, 0), 1023)
    txt, seq = _label(w, n)
    b = Builder()
    k_, _ = call(U_.write_label, txt, m, b)
    w.claim('write_label does not raise', k_ == 'ok')
    if k_ != 'ok':
        return
    k = m.bit_length()                      # forks per feasible k in the symbolic world
    bl = seq.bits_list() if n else []
    if w.symbolic:
        from vf.sym import mk_bool, mk_int
        import z3
        same = True
        for x in bl[1:]:
            same = w.And(same, mk_bool(z3.simplify(x == bl[0])) if not (type(x) is int and type(bl[0]) is int) else x == bl[0])
    else:
        same = len(set(bl)) <= 1
    out = bits_of(w, b)
    matched = False
    for kd in ('short', 'long', 'same'):
        cond = SH.kind_is(w, kd, n, k, same)
        if kd == 'same' and n == 0:
            continue
        v = w.val(seq.take_front(1)[0]) if n else 0
        want = SH.enc_label(kd, seq, n, k, v)
        w.claim(f'canonical kind {kd} => exactly its encoding', w.Implies(cond, w.eq_seq(out, want)))
    w.claim('no refs written', len(b.refs) == 0)


@obligation('C10.write_label.long', 'C10', cases=[{'n': 64}, {'n': 100}], tier='thorough', budget={'seconds': 1800},
            fuc=[U + 'write_label'], descr='thorough tier: write_label for label lengths 64 and 100')
def write_label_long(w, n):
    write_label(w, n)


@obligation('C10.read_label', 'C10', cases=[{'n': n, 'kind': kd} for n in LABEL_NS for kd in ('short', 'long', 'same')],
            fuc=[P + 'deserialize_hml', P + 'deserialize_unary', S + 'load_bit', S + 'load_bits', S + 'load_uint'],
            descr='deserialize_hml on EVERY spec-valid label encoding (all three kinds, canonical or not) of a label of length n '
                  '(bits symbolic), every remaining key length m >= n, followed by an opaque rest: returns (n, label) and '
                  'leaves exactly the rest')
def read_label(w, n, kind):
    P_ = importlib.import_module("pytoniq_core.boc.hashmap.parse")
    m = w.int('m', n, 1023)        # every remaining key length, m = 0 included (an empty long / same label at a leaf is valid, if not canonical)
    k = m.bit_length()
    if kind == 'same':
        v = w.int('v', 0, 1)
        seq = Seq()
        for _ in range(n):
            seq = seq + E.uint(v, 1)
        enc = SH.enc_label('same', None, n, k, v)
    else:
        _, seq = _label(w, n)
        enc = SH.enc_label(kind, seq, n, k)
    r = w.int('r', 0, 1023 - 64 - 2 * 64 - 11)
    rest = w.bits('R', r)
    kids = [Child(0), Child(1)]
    s = mk_slice(w, enc + rest, kids)
    k_, got = call(P_.deserialize_hml, s, m)
    w.claim('accepted', k_ == 'ok')
    if k_ != 'ok':
        return
    gn, gs = got
    w.claim('label length', gn == n)
    w.claim('label bits', w.eq_seq(w.seq_of(gs), seq))
    w.claim('leaves exactly the rest', w.eq_seq(bits_of(w, s), rest))
    w.claim('refs untouched', same_objects(s.refs, kids) and s.ref_offset == 0)


def _rec_stub(calls, name):
    def f(slice_, key_length, ret_dict, *rest):
        calls.append((name, slice_, key_length, ret_dict) + tuple(rest))
    return f


@obligation('C10.node', 'C10', cases=[{'aug': a, 'leaf': lf} for a in (False, True) for lf in (False, True)],
            fuc=[P + 'deserialize_hashmap_node', P + 'deserialize_hashmap_aug_node', P + 'parse', P + 'parse_aug'],
            descr='node level, modular (recursive calls replaced by a recording stub = their own contract at a smaller key '
                  'length): a leaf (m = 0) binds the accumulated key to the value slice (aug: extra:Y read BEFORE value:X); a fork '
                  'descends into reference 0 with prefix++0 then reference 1 with prefix++1, m-1 each (aug: the fork extra is read '
                  'AFTER both references), extras appended in that order')
def node(w, aug, leaf):
    P_ = importlib.import_module("pytoniq_core.boc.hashmap.parse")
    import bitarray as _ba
    from pytoniq_core.boc.cell import Cell
    pre_n = w.choice('pre_n', [1, 5])
    if leaf:        # the accumulated key becomes a dictionary key: concrete representatives (the code path does not depend on it)
        pre = Seq.from_01(w.choice('prefix_c', ['1', '0']) * pre_n)
    else:
        pre = w.bits('prefix', pre_n)
    prefix = w.mk_bitarray(_ba.bitarray, pre)
    r = w.int('r', 0, 900)
    data = w.bits('D', r)
    from harness.common import abstract_cell
    kids = [abstract_cell(w, 'L'), abstract_cell(w, 'R')]
    with_yref = aug and w.choice('y_owns_a_reference', [False, True])
    yref = abstract_cell(w, 'YREF') if with_yref else None
    s = mk_slice(w, data, ([yref] if (with_yref and leaf) else []) + kids + ([yref] if (with_yref and not leaf) else []))
    ret, extras, calls, order = {}, [], [], []
    m = 0 if leaf else w.int('m', 1, 1023)

    def xd(cs):
        order.append('x')
        return ('X', cs)

    yseen = []

    def yd(cs):
        # an augmentation type may own references (a CurrencyCollection with extra currencies): it takes the NEXT reference
        order.append('y')
        yseen.append(cs.ref_offset)
        got_ref = cs.load_ref() if with_yref else None
        return ('Y', len(order), got_ref)
    name = 'parse_aug' if aug else 'parse'
    with w.stub(P_, name, _rec_stub(calls, name)) if w.symbolic else _native_patch(P_, name, _rec_stub(calls, name)):
        if aug:
            k_, _ = call(P_.deserialize_hashmap_aug_node, s, m, ret, extras, prefix, xd, yd)
        else:
            k_, _ = call(P_.deserialize_hashmap_node, s, m, ret, prefix)
    w.claim('does not raise', k_ == 'ok')
    if k_ != 'ok':
        return
    if leaf:
        w.claim('no recursion at a leaf', calls == [])
        w.claim('exactly one entry', len(ret) == 1)
        key = next(iter(ret)) if ret else None
        w.claim('entry key is the accumulated prefix', key == format(pre.value(), f'0{pre_n}b'))
        if aug:
            w.claim('extra read before value', order == ['y', 'x'] and len(extras) == 1)
            if with_yref:
                w.claim('a leaf extra takes the first reference of the leaf', extras[0][2] is yref and yseen == [0])
        else:
            v = next(iter(ret.values())) if ret else None
            w.claim('value is the remaining slice', v is s)
    else:
        w.claim('two recursive calls', len(calls) == 2)
        if len(calls) == 2:
            for i, cl in enumerate(calls):
                w.claim(f'child {i}: key length m-1', cl[2] == m - 1)
                w.claim(f'child {i}: same result dict', cl[3] is ret)
                pfx = cl[5] if aug else cl[4]
                w.claim(f'child {i}: prefix ++ {i}', w.eq_seq(w.seq_of(pfx), pre + E.lit(str(i))))
                w.claim(f'child {i}: slice of reference {i}', w.eq_seq(bits_of(w, cl[1]), bits_of(w, kids[i])))
                if aug:
                    w.claim(f'child {i}: same extras list', cl[4] is extras)
        w.claim('nothing added at a fork itself', len(ret) == 0)
        if aug:
            w.claim('fork extra read after both references', order == ['y'] and len(extras) == 1 and s.ref_offset == 2 + (1 if with_yref else 0))
            w.claim('the extra deserializer runs on the slice positioned AFTER the two child references (its own references follow them)',
                    yseen == [2])
            if with_yref:
                w.claim('the extra gets the reference that follows the children', extras[0][2] is yref)


class _native_patch:
    def __init__(self, mod, name, repl):
        self.mod, self.name, self.repl = mod, name, repl

    def __enter__(self):
        self.old = getattr(self.mod, self.name)
        setattr(self.mod, self.name, self.repl)

    def __exit__(self, *a):
        setattr(self.mod, self.name, self.old)


@obligation('C10.pruned', 'C10', cases=[{'t': t, 'fn': fn} for t in (1, 2, 3, 4)
                                        for fn in ('parse', 'parse_aug', 'parse_hashmap_aug', 'node', 'HashMap.parse', 'load_hashmap_aug_e')],
            fuc=[P + 'parse', P + 'parse_aug', P + 'parse_hashmap_aug', P + 'deserialize_hashmap_node',
                 'pytoniq_core.boc.hashmap.hashmap.HashMap.parse', S + 'load_hashmap_aug_e'],
            descr='a subtree replaced by an exotic cell (pruned branch 01.., library 02.., Merkle 03../04..; rest of the data '
                  'symbolic) at ANY remaining key length 0..1023 contributes no leaves and raises nothing, in every parser')
def pruned(w, t, fn):
    P_ = importlib.import_module("pytoniq_core.boc.hashmap.parse")
    import bitarray as _ba
    from pytoniq_core.boc.hashmap.hashmap import HashMap
    m = w.int('m', 0, 1023)
    if fn == 'load_hashmap_aug_e':
        # this entry point returns the exotic cell itself (Slice.to_cell): the slice must hold a spec-valid exotic cell
        from harness.C02 import _own_data
        from harness.common import abstract_child
        data, _, _ = _own_data(w, t, 1, 0)
        kids = [abstract_child(w, f'k{i}', 'plain', 0)[0] for i in range(1 if t == 3 else 2 if t == 4 else 0)]
        for kd in kids:
            w.assume(kd._depths[0] <= 1022)
        s = mk_slice(w, data, kids, type_=t)
    else:
        r = w.int('r', 0, 1000)
        data = E.uint(t, 8) + w.bits('D', r)
        s = mk_slice(w, data, [Child(0)] * (1 if t == 3 else 2 if t == 4 else 0), type_=t)
    ret, extras = {}, []
    prefix = w.mk_bitarray(_ba.bitarray, w.bits('prefix', 3))
    if fn == 'parse':
        k_, got = call(P_.parse, s, m, ret, prefix)
    elif fn == 'parse_aug':
        k_, got = call(P_.parse_aug, s, m, ret, extras, prefix, lambda c: 1, lambda c: 2)
    elif fn == 'parse_hashmap_aug':
        k_, got = call(P_.parse_hashmap_aug, s, m, lambda c: 1, lambda c: 2)
    elif fn == 'node':
        k_, got = call(P_.deserialize_hashmap_node, s, m, ret, prefix)
    elif fn == 'HashMap.parse':
        k_, got = call(HashMap.parse, s, m)
    else:
        k_, got = call(s.load_hashmap_aug_e, m, lambda c: 1, lambda c: 2)
    w.claim(f'does not raise ({got if k_ != "ok" else ""})', k_ == 'ok')
    w.claim('contributes no leaves and no extras', ret == {} and extras == [])
    if fn in ('parse_hashmap_aug', 'HashMap.parse'):
        w.claim('returns None (no map)', got is None)
    if fn == 'load_hashmap_aug_e' and k_ == 'ok':
        from pytoniq_core.boc.cell import Cell
        w.claim('returns the exotic cell itself', isinstance(got, Cell) and got.type_ == t and w.eq_seq(bits_of(w, got), data))


@obligation('C10.aug_e', 'C10', cases=[{'present': pr, 'lead': ld, 'ydes': yd} for pr in (False, True) for ld in (0, 2) for yd in (True, False)],
            fuc=[S + 'load_hashmap_aug_e', S + 'load_bit', S + 'load_ref'],
            descr='HashmapAugE head (ahme_empty$0 extra:Y / ahme_root$1 root:^(HashmapAug n X Y) extra:Y) in the MIDDLE of a cell, after '
                  '`lead` consumed references: the empty form returns no leaves and the root extra; the root form hands the referenced '
                  'cell and the key length to the tree parser (recorded stub = its own contract, C10.node) and returns its result; in '
                  'both forms exactly one bit, the reference (root form) and - when an extra deserializer is given - the extra:Y that '
                  'FOLLOWS are consumed, the rest of the slice stays')
def aug_e(w, present, lead, ydes):
    P_ = importlib.import_module("pytoniq_core.boc.hashmap.parse")
    extra = w.bits('extraY', 8)
    r = w.int('r', 0, 900)
    rest = w.bits('R', r)
    m = w.int('m', 0, 1023)
    from harness.common import abstract_cell
    root = abstract_cell(w, 'root')
    leads = [Child(f'lead{i}') for i in range(lead)]
    tail_ref = Child('after')
    kids = leads + ([root] if present else []) + [tail_ref]
    s = mk_slice(w, E.lit('1' if present else '0') + extra + rest, kids, ref_offset=lead)
    calls = []
    SENT = ({'sentinel': 1}, ['extras'])

    def stub(cs, key_length, xd, yd):
        calls.append((cs, key_length, xd, yd))
        return SENT
    xd = lambda c: ('X', c)
    seen_y = []

    def yd(c):
        seen_y.append(c)
        return ('Y', c.load_bits(8))
    real = P_.parse_hashmap_aug          # replaced by hand (in the native world too: the stub IS the callee's contract here)
    P_.parse_hashmap_aug = stub
    try:
        k_, got = call(s.load_hashmap_aug_e, m, xd, yd if ydes else None)
    finally:
        P_.parse_hashmap_aug = real
    w.claim(f'does not raise ({got if k_ != "ok" else ""})', k_ == 'ok')
    if k_ != 'ok':
        return
    if present:
        w.claim('the tree parser is called once, on the referenced root cell, with the key length and the deserializers',
                len(calls) == 1 and w.eq_seq(bits_of(w, calls[0][0]), bits_of(w, root)) and calls[0][1] is m
                and calls[0][2] is xd and calls[0][3] is (yd if ydes else None))
        w.claim('returns the tree parser\'s result', got is SENT)
        w.claim('consumed exactly the root reference', s.ref_offset == lead + 1)
    else:
        w.claim('the tree parser is not called', not calls)
        w.claim('no leaves', isinstance(got, tuple) and got[0] == {})
        w.claim('no reference consumed', s.ref_offset == lead)
        if ydes:
            w.claim('returns the root extra', len(got[1]) == 1 and got[1][0][0] == 'Y' and w.eq_seq(w.seq_of(got[1][0][1]), extra))
    if ydes:
        w.claim('the extra deserializer ran once, on this slice', len(seen_y) == 1 and seen_y[0] is s)
        w.claim('head bit and extra:Y consumed, the rest stays', w.eq_seq(bits_of(w, s), rest))
    else:
        w.claim('only the head bit consumed (no extra deserializer: the caller reads it)', w.eq_seq(bits_of(w, s), extra + rest))
    w.claim('references of the slice untouched', same_objects(s.refs, kids))


# ---- bounded stand-ins: whole trees ---------------------------------------------------------------------------------

def _lib_cell_of(sc):
    from pytoniq_core.boc.cell import Cell
    from pytoniq_core.boc.tvm_bitarray import TvmBitarray
    import bitarray as _ba
    return Cell(TvmBitarray(1023, _ba.bitarray(sc.bits)), [_lib_cell_of(r) for r in sc.refs], sc.type_)


@obligation('C10.canonical.exhaustive', 'C10', kind='bounded', cases=[{'width': wd} for wd in (1, 2, 3)], samples=1,
            fuc=[U + 'serialize_dict', U + 'build_tree', U + 'build_edge', U + 'build_node', U + 'fork_map', U + 'find_common_prefix',
                 U + 'remove_prefix_map', U + 'write_edge', U + 'write_node', 'pytoniq_core.boc.hashmap.hashmap.HashMap.serialize'],
            descr='bounded, exhaustive: for key widths 1..3 EVERY non-empty key set (values 8-bit): HashMap.serialize().hash equals '
                  'the hash of the canonical Patricia tree built by vf/spec/hashmap.py')
def canonical_exhaustive(w, width):
    from pytoniq_core.boc.hashmap.hashmap import HashMap
    keys = list(range(1 << width))
    n = 0
    for r in range(1, len(keys) + 1):
        for sub in itertools.combinations(keys, r):
            hm = HashMap(width).with_uint_values(8)
            for k in sub:
                hm.set_int_key(k, (k * 37 + 11) % 256)
            got = hm.serialize().hash
            want = SH.build({format(k, f'0{width}b'): (k * 37 + 11) % 256 for k in sub}, width,
                            lambda v: (format(v, '08b'), [])).hash
            n += 1
            if got != want:
                w.claim(f'canonical hash for width {width} keys {sub}', False)
                return
    w.claim(f'all {n} key sets of width {width} canonical', True)


@obligation('C10.canonical.random', 'C10', kind='bounded', samples=120,
            fuc=[U + 'serialize_dict', 'pytoniq_core.boc.hashmap.hashmap.HashMap.serialize'],
            descr='bounded, random: key widths 1..1023 (incl. 32, 256, 267), up to 60 keys, clustered keys (long common prefixes, '
                  'all-same-bit labels): library hash == canonical hash of the specification')
def canonical_random(w):
    from pytoniq_core.boc.hashmap.hashmap import HashMap
    rng = w.rng
    width = rng.choice([1, 2, 4, 5, 8, 16, 31, 32, 33, 64, 256, 267, 900, rng.randrange(1, 901)])
    nk = rng.randrange(1, 61)
    keys = set()
    base = rng.getrandbits(width)
    while len(keys) < min(nk, 1 << width):
        t = rng.random()
        if t < 0.3:
            k = rng.getrandbits(width)
        elif t < 0.6:
            k = base ^ (1 << rng.randrange(width)) if rng.random() < 0.5 else base ^ rng.getrandbits(rng.randrange(1, width + 1))
        elif t < 0.8:
            k = (1 << rng.randrange(0, width + 1)) - 1 if rng.random() < 0.5 else ((1 << width) - 1) ^ ((1 << rng.randrange(0, width + 1)) - 1)
        else:
            k = 1 << rng.randrange(width)
        keys.add(k & ((1 << width) - 1))
    vals = {k: rng.getrandbits(16) for k in keys}
    order = list(keys)
    rng.shuffle(order)
    hm = HashMap(width).with_uint_values(16)
    for k in order:
        hm.set_int_key(k, vals[k])
    w.used['width'], w.used['keys'] = width, [hex(k) for k in order][:12]
    got = hm.serialize().hash
    want = SH.build({format(k, f'0{width}b'): v for k, v in vals.items()}, width, lambda v: (format(v, '016b'), [])).hash
    w.claim('library hash == canonical hash', got == want)


def _prune(sc, rng, p, depth=0):
    """replace random subtrees (not the root) by pruned-branch cells; returns (cell, set of surviving leaf markers)"""
    if depth > 0 and rng.random() < p:
        data = '00000001' + '00000001' + format(int.from_bytes(sc.hash, 'big'), '0256b') + format(sc.depth, '016b')
        return SH.SCell(data, [], 1, 1)
    kids = [_prune(r, rng, p, depth + 1) for r in sc.refs]
    out = SH.SCell(sc.bits, kids, sc.type_, 1 if any(k.level_mask for k in kids) else 0)
    return out


def _leaves(sc, m, prefix, aug_bits, val_bits, out, extras):
    """independent reader of a (possibly pruned, possibly non-canonical) tree"""
    if sc.type_ != -1:
        return
    b = sc.bits
    if b[0] == '0':
        n = b.index('0', 1) - 1
        label, pos = b[n + 2: 2 * n + 2], 2 * n + 2
    elif b[1] == '0':
        k = m.bit_length()
        n = int(b[2:2 + k], 2) if k else 0
        label, pos = b[2 + k: 2 + k + n], 2 + k + n
    else:
        k = m.bit_length()
        n = int(b[3:3 + k], 2) if k else 0
        label, pos = b[2] * n, 3 + k
    m2 = m - n
    if m2 == 0:
        if aug_bits:
            extras.append(int(b[pos:pos + aug_bits], 2))
            pos += aug_bits
        out[int(prefix + label, 2)] = int(b[pos:pos + val_bits], 2)
    else:
        _leaves(sc.refs[0], m2 - 1, prefix + label + '0', aug_bits, val_bits, out, extras)
        _leaves(sc.refs[1], m2 - 1, prefix + label + '1', aug_bits, val_bits, out, extras)
        if aug_bits:
            extras.append(int(b[pos:pos + aug_bits], 2))


@obligation('C10.parse.foreign', 'C10', kind='bounded', samples=150,
            fuc=[P + 'parse', P + 'parse_aug', P + 'parse_hashmap', P + 'parse_hashmap_aug', P + 'deserialize_hml',
                 'pytoniq_core.boc.hashmap.hashmap.HashMap.parse', S + 'load_hashmap_aug'],
            descr='bounded, random: plain and augmented trees produced by the specification encoder with RANDOM valid label '
                  'kinds (non-canonical included) and random subtrees replaced by pruned branches: the parsers return exactly the '
                  'leaves (and extras, in order) of the non-pruned part')
def parse_foreign(w):
    from pytoniq_core.boc.hashmap.hashmap import HashMap
    rng = w.rng
    width = rng.choice([1, 2, 3, 5, 8, 16, 32, 64, 256])
    nk = rng.randrange(1, 25)
    keys = {rng.getrandbits(width) if rng.random() < 0.6 else (1 << rng.randrange(width)) for _ in range(nk)}
    vals = {k: rng.getrandbits(12) for k in keys}
    aug = rng.random() < 0.5

    def choose(label, m):
        opts = ['short']
        if len(label) <= m:
            opts.append('long')
        if len(set(label)) <= 1:
            opts.append('same')
        if 2 + 2 * len(label) + 12 + 8 > 1023:
            opts.remove('short')
        return rng.choice(opts)
    extra = (lambda vs: format(sum(vs) % 256, '08b')) if aug else None
    tree = SH.build({format(k, f'0{width}b'): v for k, v in vals.items()}, width, lambda v: (format(v, '012b'), []), choose, extra)
    pruned_tree = _prune(tree, rng, rng.choice([0.0, 0.15, 0.4]))
    want, want_extras = {}, []
    _leaves(pruned_tree, width, '', 8 if aug else 0, 12, want, want_extras)
    cell = _lib_cell_of(pruned_tree)
    w.used['width'], w.used['aug'], w.used['keys'] = width, aug, sorted(hex(k) for k in keys)[:10]
    if aug:
        res = cell.begin_parse().load_hashmap_aug(width, lambda c: c.load_uint(12), lambda c: c.load_uint(8))
        w.claim('augmented parse returns a result', res is not None)
        if res is not None:
            w.claim('augmented: leaves of the non-pruned part', res[0] == want)
            w.claim('augmented: extras in specification order', res[1] == want_extras)
    else:
        res = HashMap.parse(cell.begin_parse(), width, None, lambda c: c.load_uint(12))
        w.claim('plain: leaves of the non-pruned part', res == want)
